pragma solidity 0.8.17;

contract Registry {
    struct Entry {
        uint8 kind;
        uint256 weight;
        uint8 flags;
    }

    mapping(bytes32 => Entry) private _entries;
    uint256 public immutable createdAt;
    uint256 immutable public version;
    address public admin;

    constructor(uint256 v) {
        createdAt = block.timestamp;
        version = v;
        admin = msg.sender;
    }

    function register(
        string memory name,
        bytes memory payload,
        uint256[] memory weights,
        address[] calldata owners
    ) external returns (bytes32 id) {
        id = keccak256(abi.encodePacked(name, payload));
        for (uint256 i = 0; i < weights.length; ++i) {
            _entries[id].weight += weights[i] * 4;
        }
        require(owners.length > 0 && weights.length >= owners.length, "owners and weights do not line up");
    }

    function update(string memory name, bytes memory payload, uint256[] memory weights) public view returns (uint256 n) {
        weights[0] = 1;
        n = bytes(name).length + payload.length;
    }

    function update(bytes32 id, uint256 weight) external {
        require(msg.sender == admin, "only admin");
        _entries[id].weight = weight;
    }

    receive() external payable {
        selfdestruct(payable(admin));
    }
}
