pragma solidity 0.8.0;

// Bezeichner und Kommentare mit Umlauten: überweisen, größe — 合约
contract Überweisung {
    uint256 private größe;
    address internal _empfänger;
    string public währung = unicode"€ — Euro";

    function überweisen(uint256 betrag) internal returns (uint256) {
        require(betrag > 0 && betrag <= größe, unicode"éééééééééééééééé");
        größe = größe - betrag * 2;
        return größe;
    }

    function _ändern(uint256 neu) external {
        require(neu != 0, unicode"aaaaaaaaaaaaaaaaaaaaaaaaaaaaaaé");
        größe = neu;
    }
}
