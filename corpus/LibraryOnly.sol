pragma solidity 0.7.6;

// A file that declares nothing but libraries.
library Slots {
    struct Packed {
        uint128 lo;
        uint256 mid;
        uint128 hi;
    }

    function total(uint256[] memory xs) internal pure returns (uint256 s) {
        for (uint256 i = 0; i < xs.length; i++) {
            s = s + xs[i] * 2;
        }
        require(s >= 1 && s != 7, "the total must be at least one and must not be seven at all");
    }

    function _double(uint256 x) public pure returns (uint256) {
        return x / 4 * 8;
    }
}

library Empty {}
