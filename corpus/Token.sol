// SPDX-License-Identifier: MIT
pragma solidity ^0.8.4;

interface IERC20 {
    function totalSupply() external view returns (uint256);
    function balanceOf(address account) external view returns (uint256);
    function transfer(address to, uint256 amount) external returns (bool);
    function allowance(address owner, address spender) external view returns (uint256);
    function approve(address spender, uint256 amount) external returns (bool);
    function transferFrom(address from, address to, uint256 amount) external returns (bool);
    event Transfer(address indexed from, address indexed to, uint256 value);
    event Approval(address indexed owner, address indexed spender, uint256 value);
}

contract Token is IERC20 {
    mapping(address => uint256) private _balances;
    mapping(address => mapping(address => uint256)) private _allowances;
    uint256 private _totalSupply;
    string public name;
    string public symbol;
    uint8 public decimals = 18;
    address public owner;
    bool public paused;

    modifier onlyOwner() {
        require(msg.sender == owner, "Ownable: caller is not the owner");
        _;
    }

    constructor(string memory name_, string memory symbol_) {
        name = name_;
        symbol = symbol_;
        owner = msg.sender;
    }

    function totalSupply() public view override returns (uint256) {
        return _totalSupply;
    }

    function balanceOf(address account) public view override returns (uint256) {
        return _balances[account];
    }

    function transfer(address to, uint256 amount) public override returns (bool) {
        _transfer(msg.sender, to, amount);
        return true;
    }

    function allowance(address owner_, address spender) public view override returns (uint256) {
        return _allowances[owner_][spender];
    }

    function approve(address spender, uint256 amount) public override returns (bool) {
        _approve(msg.sender, spender, amount);
        return true;
    }

    function transferFrom(address from, address to, uint256 amount) public override returns (bool) {
        uint256 currentAllowance = _allowances[from][msg.sender];
        require(currentAllowance >= amount, "ERC20: insufficient allowance");
        unchecked {
            _approve(from, msg.sender, currentAllowance - amount);
        }
        _transfer(from, to, amount);
        return true;
    }

    function mint(address to, uint256 amount) external onlyOwner {
        require(to != address(0) && amount > 0, "ERC20: mint to the zero address or zero amount");
        _totalSupply += amount;
        _balances[to] += amount;
        emit Transfer(address(0), to, amount);
    }

    function setPaused(bool p) external onlyOwner {
        if (paused == true) {
            paused = false;
        }
        paused = p;
    }

    function _transfer(address from, address to, uint256 amount) internal {
        require(from != address(0), "ERC20: transfer from the zero address");
        require(to != address(0), "ERC20: transfer to the zero address");
        require(!paused, "paused");
        uint256 fromBalance = _balances[from];
        require(fromBalance >= amount, "ERC20: transfer amount exceeds balance");
        unchecked {
            _balances[from] = fromBalance - amount;
        }
        _balances[to] += amount;
        emit Transfer(from, to, amount);
    }

    function _approve(address owner_, address spender, uint256 amount) internal {
        require(owner_ != address(0), "ERC20: approve from the zero address");
        require(spender != address(0), "ERC20: approve to the zero address");
        _allowances[owner_][spender] = amount;
        emit Approval(owner_, spender, amount);
    }
}
