pragma solidity >=0.8.0 <0.9.0;

type Price is uint128;

uint256 constant WAD = 1e18;

using {mulWad} for uint256 global;

function mulWad(uint256 a, uint256 b) pure returns (uint256) {
    return a * b / WAD;
}

function clamp(uint256 x, uint256 lo, uint256 hi) pure returns (uint256) {
    return x < lo ? lo : (x > hi ? hi : x);
}

enum Side { Buy, Sell }

event Filled(Side side, uint256 qty);

abstract contract Base {
    uint256 internal seed;
    constructor(uint256 s) { seed = s; }
    function hook(uint256 x) internal virtual returns (uint256);
    modifier guarded(uint256 lim) { require(seed <= lim); _; }
}

contract Book is Base(7) {
    struct Order { address maker; uint96 qty; Side side; uint8 tier; uint256 px; uint8 flags; }
    Order[] public orders;
    uint256 private immutable _cap;
    bool public _open;
    bytes32 internal salt;

    constructor(uint256 cap_) { _cap = cap_; _open = true; }

    function hook(uint256 x) internal override returns (uint256) { return x << 1; }

    function place(Side side, uint96 qty, uint256 px) external guarded(_cap * 2) returns (uint256 id) {
        orders.push(Order({maker: msg.sender, qty: qty, side: side, tier: 0, px: px, flags: 0}));
        id = orders.length - 1;
        emit Filled(side, qty);
    }

    function _notional(uint256 id) public view returns (uint256) {
        Order memory o = orders[id];
        return uint256(o.qty).mulWad(o.px);
    }

    function total(uint256[] calldata ids) external view returns (uint256 t) {
        unchecked {
            for (uint256 i = 0; i < ids.length; ++i) {
                t += _notional(ids[i]);
            }
        }
    }

    function close() external {
        _open = false;
        salt = keccak256(abi.encode(block.number, orders.length));
    }

    function scale(uint256 x) private pure returns (uint256) {
        return x * 8 + x / 4 + x * 3;
    }
}
