// SPDX-License-Identifier: MIT
pragma solidity 0.8.17;

// Legal but rare forms, one per member where possible (corpus input for the traversal, line, re-layout,
// composition and termination monitors).

type Price is uint128;

enum Mode { Off, On }

struct Pair {
    uint8[4] small;
    uint64[2] medium;
    uint256[2 * 2][] nested;
    mapping(address => uint256[3 + 1]) table;
}

error TooSmall(uint256 have, uint256 want);

function freeScale(uint256 v) pure returns (uint256) {
    return v * 0x10 / 0x0000_0000_0001;
}

interface IRare {
    function ping(uint256 a, uint256 b) external payable returns (bool ok, bytes memory data);
}

contract WithFallback {
    uint256 hits;
    fallback(bytes calldata input) external payable returns (bytes memory output) {
        hits = hits + 1;
        output = input;
    }
}

library WithInnerType {
    type Slot is bytes32;
    struct Packed { uint128 lo; Slot s; uint128 hi; }
}

contract Child {
    uint256 public seed;
    constructor(uint256 s) payable {
        seed = s;
    }
}

abstract contract RareBase {
    uint128 internal tailB;
    modifier onlyOwner() {
        _checkOwner();
        _;
    }
    modifier auth(uint256 level) {
        require(level > 0 && level < 10, "level");
        _;
    }
    function _checkOwner() internal view virtual;
}

contract RareForms is RareBase {
    using SafeMath for uint256;
    using EnumerableSet for EnumerableSet.AddressSet;

    address payable owner_;
    uint256 total;
    uint256 last;
    uint256[] vals;
    uint256[] vals1;
    Mode mode;
    Price ask;
    IRare target;
    function(uint256) external returns (uint256) callback;

    constructor() {
        owner_ = payable(msg.sender);
    }

    function _checkOwner() internal view override {
        require(msg.sender == owner_);
    }

    receive() external payable auth(total.add(1)) {}

    fallback() external payable auth(vals.length * 2) {
        total = last = msg.value;
    }

    function tries(uint256 a) external returns (uint256 r) {
        try new Child(a) {
            total = total + 1;
            vals[0] = vals[0] + a;
            for (uint256 j = 0; j < vals.length; j++) {
                unchecked {
                    ++j;
                }
                if (j == 3) {
                    continue;
                }
            }
            while (r < a) {
                r = r * 2 + 1;
            }
            do {
                r--;
            } while (r > 100);
            try target.ping(1, 2) {
                last = 1;
            } catch {}
        } catch {
            last++;
        }
        try new Child{value: 1, salt: bytes32(a)}(a / 2 * 3) returns (Child c) {
            r = c.seed();
        } catch Error(string memory reason) {
            require(bytes(reason).length > 0 && a > 0, "no reason given for the failure at all");
        } catch Panic(uint256 code) {
            r = code;
        } catch (bytes memory low) {
            r = low.length;
        }
        try target.ping{value: a, gas: 5000}(a, a + 1) returns (bool ok, bytes memory) {
            if (ok == true) r++;
        } catch {}
        try target.ping(1, 2) {
            ++r;
        } catch {
            --r;
        }
    }

    function headers(uint256 n) public returns (uint256 acc) {
        for (uint256 i = n + 1; ; i++) {
            if (i > 10) break;
        }
        for (; acc < vals.length; ) {
            acc += 2;
        }
        uint256 j;
        for (j = n / 2 * 4; j < n; ) {
            unchecked {
                ++j;
                for (uint256 k = 0; k < 2; ++k) {
                    if (k == 1) {
                        --acc;
                    }
                }
            }
        }
        for (;;) {
            break;
        }
        do {
            acc = acc * 8;
        } while (acc < 100 && n != 0);
    }

    function literals(uint256 x) public pure returns (uint256) {
        uint256 a = x * 0x0000_0000;
        uint256 b = 0x0_0 / (x + 1);
        uint256 c = x * 5e-1 * 2;
        uint256 d = x * 25e-1 * 4;
        uint256 e = 2 * 10 + 1024 / 1000 + 4 * 3 + 2 * 1e18;
        uint256 f = 1_000 * 1_024 + .5e1 * 2 + 1 ether / 2 + 2 days * 4;
        return a + b + c + d + e + f;
    }

    function conversions(address who) public view returns (bool) {
        return who == address(uint160(0)) || who != address(0x0) || address(uint160(uint256(uint160(who)))) == address(0);
    }

    function collide(uint256 v) public {
        vals1[0] = vals[10] + 1;
        vals[10] = vals[10] + v;
        vals1[1] = vals1[1] * 2;
        (vals[0], ) = (vals[0] + 1, v);
        (uint256 p, , uint256 q) = (v, v, v);
        total = p + q;
    }

    function messages(uint256 v) public pure {
        require(v > 1, "😀 a long message with a surrogate pair inside, well over 32 bytes");
        require(v > 2, unicode"short é");
        require(v > 3, "fifteen bytes.." "sixteen bytes...");
        require(v > 4, "sixteen bytes..." /* gap */ "seventeen bytes..");
        require(v > 5 && v < 50,
            "split over lines");
        require(
            v > 6 &&
            v < 60,
            "x"
        );
        if (v == 7) revert TooSmall({have: v, want: 8});
        if (v == 8) revert("plain revert with a string that is longer than thirty-two bytes");
        assert(v != 9);
    }

    function calls(address token, uint256 v) external onlyOwner auth(v) {
        IERC20(token).transfer{gas: 50000}(msg.sender, v);
        (IERC20(token).transferFrom)(msg.sender, address(this), v);
        bytes4 sel = IERC20(token).approve.selector;
        function(address, uint256) external returns (bool) op = IERC20(token).transfer;
        op(msg.sender, v);
        target.ping({a: v, b: v / 4 * 2});
        callback = this.freeHook;
        sel;
        total.add(v);
        total = total.sub(1).mul(2).div(3);
    }

    function freeHook(uint256 v) external pure returns (uint256) {
        return v ** 2 ** 3;
    }

    function destroy() external {
        uint256 check = uint256(uint160(msg.sender));
        check;
        selfdestruct(payable(address(uint160(msg.sender))));
    }

    function destroyTwice(bool first) external {
        if (first) {
            selfdestruct(payable(msg.sender));
        }
        selfdestruct(owner_);
    }

    function sorted(uint256[] memory data, string memory label) public view returns (uint256[] memory) {
        for (uint256 i = 1; i < data.length; i++) {
            if (data[i - 1] > data[i]) {
                (data[i - 1], data[i]) = (data[i], data[i - 1]);
            }
        }
        bytes(label).length;
        return data;
    }

    type Inner is uint64;

    function slices(bytes calldata data, uint256 x) external pure returns (bytes memory) {
        bytes calldata head = data[:x / 16];
        bytes calldata tail = data[x * 4:];
        bytes calldata mid = data[x++:x * 2];
        head;
        tail;
        return data[:uint256(keccak256(abi.encodePacked(mid))) % 32];
    }

    function catches(uint256 a) external returns (uint256 r) {
        try target.ping(a, a * 2) {
            r = a / 4;
        } catch Error(string memory reason) {
            r = bytes(reason).length * 8;
        } catch (bytes memory lowLevel) {
            r = lowLevel.length;
            total = total + 1;
        }
    }

    function inlineAsm(uint256 x) public pure returns (uint256 r) {
        assembly {
            r := mul(x, 2)
            if iszero(r) { r := div(x, 4) }
        }
        assembly "evmasm" {
            r := add(r, 1)
        }
    }
}
