pragma solidity 0.8.17;

import "./Token.sol";
import {IERC20 as Tok} from "./Token.sol";

error NotOwner(address caller);
error TooMuch(uint256 asked, uint256 available);

struct Position {
    uint128 shares;
    uint64 since;
    address holder;
    bool locked;
    uint256 debt;
}

library MathLib {
    function mulDiv(uint256 a, uint256 b, uint256 d) internal pure returns (uint256) {
        return a * b / d;
    }

    function badMulDiv(uint256 a, uint256 b, uint256 d) internal pure returns (uint256) {
        return a / d * b;
    }

    function half(uint256 a) internal pure returns (uint256) {
        return a / 2;
    }

    function pow2(uint256 a, uint256 e) internal pure returns (uint256) {
        return a ** e * 4;
    }
}

contract Vault {
    using MathLib for uint256;

    IERC20 public immutable asset;
    address public governance;
    uint256 public totalShares;
    uint256 public constant FEE_BPS = 30;
    uint256 internal constant MAX_BPS = 10_000;
    uint256 public lastHarvest;
    uint8 private flags;
    address[] public strategies;
    mapping(address => Position) public positions;
    uint256[10] public buckets;

    event Deposit(address indexed who, uint256 amount, uint256 shares);

    constructor(IERC20 asset_, address governance_) {
        asset = asset_;
        governance = governance_;
        lastHarvest = block.timestamp;
    }

    receive() external payable {}

    fallback() external payable {
        revert("no fallback");
    }

    function deposit(uint256 amount, address receiver) external returns (uint256 shares) {
        if (amount == 0) revert TooMuch({asked: amount, available: 0});
        uint256 supply = totalShares;
        shares = supply == 0 ? amount : amount.mulDiv(supply, totalAssets());
        asset.transferFrom(msg.sender, address(this), amount);
        positions[receiver].shares += uint128(shares);
        positions[receiver].since = uint64(block.timestamp);
        totalShares = supply + shares;
        emit Deposit(receiver, amount, shares);
    }

    function withdraw(uint256 shares, address receiver) external returns (uint256 amount) {
        Position storage p = positions[msg.sender];
        require(p.shares >= shares && !p.locked, "Vault: not enough shares or position is locked");
        amount = shares * totalAssets() / totalShares;
        p.shares -= uint128(shares);
        totalShares -= shares;
        asset.transfer(receiver, amount);
    }

    function totalAssets() public view returns (uint256) {
        return asset.balanceOf(address(this)) + address(this).balance;
    }

    function harvest(uint256[] memory gains) public returns (uint256 sum) {
        for (uint256 i = 0; i < gains.length; i++) {
            sum += gains[i];
        }
        for (uint256 j; j < strategies.length; ++j) {
            buckets[0] = buckets[0] + sum;
        }
        uint256 k = 10;
        while (k > 0) {
            k--;
        }
        do {
            k++;
        } while (k <= 3);
        lastHarvest = block.timestamp;
    }

    function fee(uint256 amount) external pure returns (uint256) {
        return amount * FEE_BPS / MAX_BPS * 2;
    }

    function sweep(address token) external {
        if (msg.sender != governance) revert NotOwner(msg.sender);
        try IERC20(token).transfer(governance, IERC20(token).balanceOf(address(this))) returns (bool ok) {
            require(ok, "sweep failed");
        } catch Error(string memory reason) {
            revert(reason);
        } catch (bytes memory) {
            flags = flags | 1;
        }
    }

    function kill() external {
        selfdestruct(payable(msg.sender));
    }

    function id(bytes memory data) external pure returns (bytes32) {
        return keccak256(abi.encodePacked(data, uint256(1)));
    }

    function low(address target, bytes calldata data) external payable returns (bytes memory) {
        (bool ok, bytes memory ret) = target.call{value: msg.value, gas: 5000}(data);
        require(ok);
        return ret;
    }
}
