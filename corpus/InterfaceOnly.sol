// SPDX-License-Identifier: MIT
pragma solidity ^0.8.4;

// A file that declares nothing but interfaces (with a wastefully ordered struct and an event inside).
interface IOrders {
    struct Order {
        uint8 kind;
        uint256 amount;
        uint8 flags;
    }

    event Placed(uint256 indexed id, Order order);

    function place(Order calldata order, uint256[] memory hints) external returns (uint256 id);

    function cancel(uint256 id) external;
}

interface IOrdersView is IOrders {
    function get(uint256 id) external view returns (Order memory);
}
