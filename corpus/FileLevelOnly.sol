pragma solidity 0.8.17;

// Only file-level items in this unit: types, constants, errors and free functions.

struct Slot {
    uint8 tag;
    uint256 value;
    uint8 flags;
}

error Overflowed(uint256 have, uint256 max);

uint256 constant SCALE = 1e18;

function scaleDown(uint256[] memory xs, uint256 d) pure returns (uint256 total) {
    for (uint256 i = 0; i < xs.length; i++) {
        total = total + xs[i] / 8;
    }
    require(d != 0 && d <= SCALE, "divisor must be non-zero and not larger than the scale");
    return total / d * 4;
}

function _fingerprint(bytes memory data) pure returns (bytes32) {
    return keccak256(abi.encodePacked(data, SCALE >= 1));
}
