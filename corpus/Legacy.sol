pragma solidity ^0.6.12;
pragma experimental ABIEncoderV2;

library SafeMath {
    function add(uint256 a, uint256 b) internal pure returns (uint256) {
        uint256 c = a + b;
        require(c >= a, "SafeMath: addition overflow");
        return c;
    }
    function sub(uint256 a, uint256 b) internal pure returns (uint256) {
        require(b <= a, "SafeMath: subtraction overflow");
        return a - b;
    }
    function mul(uint256 a, uint256 b) internal pure returns (uint256) {
        if (a == 0) {
            return 0;
        }
        uint256 c = a * b;
        require(c / a == b, "SafeMath: multiplication overflow");
        return c;
    }
    function div(uint256 a, uint256 b) internal pure returns (uint256) {
        require(b > 0, "SafeMath: division by zero");
        return a / b;
    }
}

contract Legacy {
    using SafeMath for uint256;

    address owner;
    uint256 public rate = 100;
    uint256 total;
    mapping(address => uint256) deposits;

    function Legacy_init() public {
        owner = msg.sender;
    }

    constructor() public {
        owner = msg.sender;
    }

    function deposit() public payable {
        deposits[msg.sender] = deposits[msg.sender].add(msg.value);
        total = total.add(msg.value.mul(rate).div(100));
    }

    function withdraw(uint256 amount) public {
        require(deposits[msg.sender] >= amount, "This revert string is definitely longer than thirty-two bytes");
        deposits[msg.sender] = deposits[msg.sender].sub(amount);
        msg.sender.transfer(amount);
    }

    function destroy() public {
        require(msg.sender == owner);
        selfdestruct(msg.sender);
    }

    function old() public {
        suicide(owner);
    }

    function asm(uint256 x) public pure returns (uint256 r) {
        assembly {
            r := add(x, 1)
            let y := mul(r, 2)
            if lt(y, 10) { r := y }
            for { let i := 0 } lt(i, 3) { i := add(i, 1) } { r := add(r, i) }
            switch r case 0 { r := 1 } default { r := 2 }
        }
    }
}
