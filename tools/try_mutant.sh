#!/bin/bash
# tools/try_mutant.sh <patch.diff> <ID>... : apply a seeded change to /repo, confirm the repository's own tests still
# pass, run the given checks (quick tier, separate target dir and output dir), then restore /repo.
# Prints DETECTED/MISSED per property.
set -u
cd "$(dirname "$0")/.."
PATCH="$(readlink -f "$1")"; shift
if [ -n "$(git -C /repo status --porcelain --untracked-files=no)" ]; then echo "/repo has uncommitted changes, refusing"; exit 3; fi
git -C /repo apply "$PATCH" || { echo "patch does not apply"; exit 3; }
trap 'git -C /repo checkout -- . >/dev/null 2>&1' EXIT
[ -n "${SKIP_TESTS:-}" ] || ( cd /repo && CARGO_TARGET_DIR=/verif/target-mut/repo-tests cargo test --offline 2>&1 | grep -E "^test result|FAILED|^error" | head -5 )
export VMON_TARGET_DIR=target-mut
export VMON_OUT_DIR="$(mktemp -d /dev/shm/vmon-mut.XXXXXX)"
for p in "$@"; do
  tier="${TIER:-quick}"
  out=$(./check $p --tier $tier 2>&1); code=$?
  if [ $code -eq 1 ]; then echo "DETECTED $p ($tier): $(echo "$out" | grep -c '^VIOLATION') signatures, e.g. $(echo "$out" | grep '^VIOLATION' | head -3 | sed 's/.*signature=//' | tr '\n' ';')";
  elif [ $code -eq 0 ]; then echo "MISSED   $p ($tier): $(echo "$out" | tail -1)";
  else echo "INCONCL  $p ($tier): $(echo "$out" | grep -E 'INCONCLUSIVE|error' | head -3)"; fi
done
rm -rf "$VMON_OUT_DIR"
