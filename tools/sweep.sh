#!/bin/bash
# tools/sweep.sh <tier> <seed>... : runs every check at the given seeds with outputs redirected to a scratch
# directory (so that /verif/evidence is not disturbed); prints one line per (property, seed) and the non-silent ones.
cd "$(dirname "$0")/.."
TIER="$1"; shift
export VMON_OUT_DIR="$(mktemp -d /dev/shm/vmon-sweep.XXXXXX)"
export VMON_SOLSTAT_BIN="$PWD/target/release/solstat"
# the sanitizer legs of C15 rebuild from /repo; they are exercised by ./check C15 itself, not by this sweep
export VMON_SKIP_SANITIZERS=1
fail=0
for seed in "$@"; do
  for p in C01 C02 C03 C04 C05 C06 C07 C08 C09 C10 C11 C12 C13 C14 C15 C16 C17 C18 C19; do
    out=$(VERIF_SEED=$seed target/release/vmon $p --tier $TIER 2>&1); code=$?
    echo "$p seed=$seed tier=$TIER exit=$code $(echo "$out" | tail -1)"
    if [ $code -ne 0 ]; then fail=1; echo "$out" | grep -E "VIOLATION|INCONCLUSIVE|panic" | head -8; fi
  done
done
rm -rf "$VMON_OUT_DIR"
exit $fail
