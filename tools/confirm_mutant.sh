#!/bin/bash
# tools/confirm_mutant.sh <worktree> <i> : independently confirm a seeded change delivered in <worktree>/MUTANTS:
# (a) existing tests pass with it, (b) its demo fails with it, (c) its demo passes without it. Leaves the worktree clean.
set -u
WT="$1"; I="$2"
cd "$WT" || exit 3
export CARGO_TARGET_DIR="$WT/target"
git checkout -q -- . ; rm -f tests/demo.rs
D="MUTANTS/mutant$I.diff"
[ -f "$D" ] || { echo "no $D"; exit 3; }
run_demo() {
  if [ -f "MUTANTS/demo$I/demo.rs" ]; then
    mkdir -p tests; cp "MUTANTS/demo$I/demo.rs" tests/demo.rs
    cargo test --offline --test demo >/tmp/demo.$$.log 2>&1; rc=$?
    rm -f tests/demo.rs; rmdir tests 2>/dev/null
    return $rc
  elif [ -f "MUTANTS/demo$I/demo.sh" ]; then
    bash "MUTANTS/demo$I/demo.sh" >/tmp/demo.$$.log 2>&1; return $?
  else
    echo "no demo"; return 99
  fi
}
run_demo; c=$?
git apply "$D" || { echo "diff does not apply"; exit 3; }
a_out=$(cargo test --offline --lib --bins 2>&1 | grep -E "^test result" | tr '\n' ' ')
run_demo; b=$?
git checkout -q -- .
echo "mutant=$WT/$D tests_with_mutant=[$a_out] demo_with_mutant_rc=$b demo_clean_rc=$c"
if echo "$a_out" | grep -q "failed; 0\|[1-9][0-9]* failed"; then :; fi
