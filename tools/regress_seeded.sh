#!/bin/bash
# tools/regress_seeded.sh [pattern] : re-run every seeded change (or those whose directory name matches the pattern)
# against the quick check of the property it was written for; prints one line per change.
cd "$(dirname "$0")/.."
PAT="${1:-}"
n=0
for d in seeded/*/; do
  id=$(basename "$d")
  # LANES=<k> LANE=<i>: take every k-th change, starting with the i-th (parallel regressions on separate copies)
  n=$((n+1))
  [ -n "${LANES:-}" ] && [ $(( n % LANES )) -ne "${LANE:-0}" ] && continue
  [ -n "$PAT" ] && [[ "$id" != *$PAT* ]] && continue
  # SKIP_DONE=<log>: leave out the changes that already have a line in that log (resume an interrupted regression)
  [ -n "${SKIP_DONE:-}" ] && grep -q "^$id :: " "$SKIP_DONE" 2>/dev/null && continue
  prop=$(python3 -c "import json;print(json.load(open('$d/meta.json'))['property'])")
  out=$(VMON_WATCHDOG_S=1500 ./tools/try_mutant.sh "$d/patch.diff" $prop 2>&1 | grep -E "DETECTED|MISSED|INCONCL|refusing|does not apply" | head -1 | cut -c1-160)
  echo "$id :: $out"
done
