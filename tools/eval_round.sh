#!/bin/bash
# tools/eval_round.sh <worktree-prefix> : for every <prefix>CXX/MUTANTS/mutant<i>.diff confirm it independently and run
# the primary property's quick check against it.
P="$1"
for w in ${P}C*; do
  prop=$(basename "$w" | sed 's/.*-//')
  for d in "$w"/MUTANTS/mutant*.diff; do
    [ -f "$d" ] || continue
    i=$(basename "$d" | sed 's/mutant\([0-9]*\)\.diff/\1/')
    c=$(/verif/tools/confirm_mutant.sh "$w" "$i" 2>&1 | tail -1 | sed 's/test result: ok. \([0-9]*\) passed; \([0-9]*\) failed[^]]*finished in [0-9.]*s/\1ok\/\2fail/g')
    echo "== $prop mutant$i :: $c"
    /verif/tools/try_mutant.sh "$d" $prop ${EXTRA:-} 2>&1 | grep -E "DETECTED|MISSED|INCONCL|refusing|does not apply"
  done
done
