#!/usr/bin/env python3
"""Prints the markdown table of seeded changes from /verif/seeded/*/meta.json (used for DESIGN.md section 10)."""
import json,glob,os
rows=[]
for d in sorted(glob.glob('/verif/seeded/*')):
    m=json.load(open(d+'/meta.json'))
    rows.append((os.path.basename(d),m['property'],m['needs_to_manifest'],m['detection'],m['detected']))
print("| seeded change | property | needs, to manifest | checks run and outcome | detected |")
print("|---|---|---|---|---|")
for r in rows:
    print("| `%s` | %s | %s | %s | %s |"%r)
