#!/usr/bin/env python3
"""Prints the markdown table of seeded changes from /verif/seeded/*/meta.json (used for DESIGN.md section 10.1)."""
import json,glob,os,re
rows=[]
for d in sorted(glob.glob('/verif/seeded/*/')):
    m=json.load(open(d+'meta.json'))
    det=m['detection']
    note=''
    if ';; strengthening:' in det:
        note=det.split(';; strengthening:')[1].strip()
    elif m['detected']!='first try':
        note=det
    sig=re.findall(r'DETECTED (C\d+) \(quick\)[^|;]*?e\.g\. ([^ ;]+)',det)
    if sig:
        short='; '.join(sorted(set(f"{p}: `{s}`" for p,s in sig)))[:260]
    else:
        short=det[:260]
    if m['detected']=='first try':
        outcome='first try — '+short
    else:
        outcome='**missed at first** → '+note+' → now '+short if sig else '**missed at first** → '+note
    rows.append((os.path.basename(d.rstrip('/')),m['needs_to_manifest'],outcome))
print("| seeded change (`seeded/<id>`) | needs, to manifest | outcome of the quick checks |")
print("|---|---|---|")
for r in rows:
    print("| `%s` | %s | %s |"%tuple(x.replace('|','\\|').replace('\n',' ') for x in r))
