#!/usr/bin/env python3
"""Regenerates /verif/MANIFEST.json from the table below and validates it against the schema."""
import json, sys, os
V = "/verif"
BUILT = json.load(open(f"{V}/tools/built.json"))  # {"C10": {"technique":..., "text":..., "note":..., "design_ref":...}, ...}
props = [json.loads(l) for l in open(f"{V}/properties.jsonl")]
checks, na = [], []
for p in props:
    pid = p["id"]
    if pid in BUILT:
        b = BUILT[pid]
        checks.append({
            "property_id": pid,
            "quick_cmd": f"./check {pid} --tier quick",
            "thorough_cmd": f"./check {pid} --tier thorough",
            "evidence_file": f"/verif/evidence/{pid}.json",
            "replay_cmd_template": f"./check {pid} --replay {{path}}",
            "engine": "vmon",
            "level_claimed": {"category": "exploration", "text": b["text"], "design_ref": b.get("design_ref", f"DESIGN.md section 7, {pid}")},
            "level_note": b["note"],
            "technique": b["technique"],
        })
    else:
        na.append({"property_id": pid, "reason": "monitor designed (DESIGN.md section 7) but not built yet in this round; no claim is made until its check exists and is silent on the unchanged tree"})
m = {
    "version": 1,
    "setup_cmd": "./setup.sh",
    "hooks": {
        "guard": "solstat_verif",
        "enable": "RUSTFLAGS=\"--cfg solstat_verif\" (set by ./check for every build of /repo); no source hook exists, all observation is at the public API, the process boundary and the syscall trace",
        "baseline_off_cmd": "cd /repo && cargo test --workspace --no-fail-fast --offline",
        "source_commits": [],
        "add_only": True,
    },
    "engines": [{"name": "vmon", "path": "/verif/harness", "serves_properties": sorted(BUILT.keys()),
                 "kind_free_text": "Rust harness linking the solstat library from /repo's working tree: workload generators + runtime monitors (reference models, metamorphic oracles, fs snapshots, strace) + evidence writer"}],
    "checks": checks,
    "notes": "Technique family: runtime monitoring. exit 0 held / 1 VIOLATION / 2 INCONCLUSIVE. Known findings: /verif/known_findings.jsonl. See DESIGN.md.",
    "not_applicable": na,
}
json.dump(m, open(f"{V}/MANIFEST.json", "w"), indent=1)
try:
    import jsonschema
    jsonschema.validate(m, json.load(open("/root/.vp/MANIFEST.schema.json")))
    print("MANIFEST.json valid;", len(checks), "checks,", len(na), "not_applicable")
except ImportError:
    print("jsonschema not importable here; wrote MANIFEST.json without validation")
