//! The 30 detectors of solstat, addressed uniformly.
use solang_parser::pt::{Loc, SourceUnit};
use solstat::analyzer::optimizations::{self as o, Optimization as O};
use solstat::analyzer::qa::{self as q, QualityAssurance as Q};
use solstat::analyzer::vulnerabilities::{self as v, Vulnerability as V};
use std::collections::{BTreeSet, HashSet};

#[derive(Clone, Copy, PartialEq, Eq, Hash, Debug)]
pub enum Det {
    Opt(O),
    Vuln(V),
    Qa(Q),
}

pub const ALL: [(&str, Det); 30] = [
    ("address_balance", Det::Opt(O::AddressBalance)),
    ("address_zero", Det::Opt(O::AddressZero)),
    ("assign_update_array_value", Det::Opt(O::AssignUpdateArrayValue)),
    ("bool_equals_bool", Det::Opt(O::BoolEqualsBool)),
    ("cache_array_length", Det::Opt(O::CacheArrayLength)),
    ("constant_variables", Det::Opt(O::ConstantVariables)),
    ("immutable_variables", Det::Opt(O::ImmutableVarialbes)),
    ("increment_decrement", Det::Opt(O::IncrementDecrement)),
    ("memory_to_calldata", Det::Opt(O::MemoryToCalldata)),
    ("multiple_require", Det::Opt(O::MultipleRequire)),
    ("optimal_comparison", Det::Opt(O::OptimalComparison)),
    ("pack_storage_variables", Det::Opt(O::PackStorageVariables)),
    ("pack_struct_variables", Det::Opt(O::PackStructVariables)),
    ("payable_function", Det::Opt(O::PayableFunction)),
    ("private_constant", Det::Opt(O::PrivateConstant)),
    ("safe_math_pre_080", Det::Opt(O::SafeMathPre080)),
    ("safe_math_post_080", Det::Opt(O::SafeMathPost080)),
    ("shift_math", Det::Opt(O::ShiftMath)),
    ("short_revert_string", Det::Opt(O::ShortRevertString)),
    ("solidity_keccak256", Det::Opt(O::SolidityKeccak256)),
    ("solidity_math", Det::Opt(O::SolidityMath)),
    ("sstore", Det::Opt(O::Sstore)),
    ("string_errors", Det::Opt(O::StringErrors)),
    ("floating_pragma", Det::Vuln(V::FloatingPragma)),
    ("unsafe_erc20_operation", Det::Vuln(V::UnsafeERC20Operation)),
    ("unprotected_selfdestruct", Det::Vuln(V::UnprotectedSelfdestruct)),
    ("divide_before_multiply", Det::Vuln(V::DivideBeforeMultiply)),
    ("constructor_order", Det::Qa(Q::ConstructorOrder)),
    ("private_vars_leading_underscore", Det::Qa(Q::PrivateVarsLeadingUnderscore)),
    ("private_func_leading_underscore", Det::Qa(Q::PrivateFuncLeadingUnderscore)),
];

pub fn by_name(n: &str) -> Option<Det> {
    ALL.iter().find(|(a, _)| *a == n).map(|(_, d)| *d)
}

impl Det {
    pub fn name(&self) -> &'static str {
        ALL.iter().find(|(_, d)| d == self).map(|(n, _)| *n).unwrap()
    }
    pub fn category(&self) -> &'static str {
        match self {
            Det::Opt(_) => "optimizations",
            Det::Vuln(_) => "vulnerabilities",
            Det::Qa(_) => "qa",
        }
    }
    /// the per-file entry point (parses `text` itself; panics if it does not parse)
    pub fn lines(&self, text: &str, file_no: usize) -> BTreeSet<i32> {
        match self {
            // (`as i32`: the harness keeps building if the library's line-number type changes)
            Det::Opt(x) => o::analyze_for_optimization(text, file_no, *x).into_iter().map(|l| l as i32).collect(),
            Det::Vuln(x) => v::analyze_for_vulnerability(text, file_no, *x).into_iter().map(|l| l as i32).collect(),
            Det::Qa(x) => q::analyze_for_qa(text, file_no, *x).into_iter().map(|l| l as i32).collect(),
        }
    }
    /// the detector function itself (locations)
    pub fn locs(&self, su: SourceUnit) -> HashSet<Loc> {
        match self {
            Det::Opt(x) => match x {
                O::AddressBalance => o::address_balance::address_balance_optimization(su),
                O::AddressZero => o::address_zero::address_zero_optimization(su),
                O::AssignUpdateArrayValue => o::assign_update_array_value::assign_update_array_optimization(su),
                O::CacheArrayLength => o::cache_array_length::cache_array_length_optimization(su),
                O::ConstantVariables => o::constant_variables::constant_variable_optimization(su),
                O::BoolEqualsBool => o::bool_equals_bool::bool_equals_bool_optimization(su),
                O::ImmutableVarialbes => o::immutable_variables::immutable_variables_optimization(su),
                O::IncrementDecrement => o::increment_decrement::increment_decrement_optimization(su),
                O::MemoryToCalldata => o::memory_to_calldata::memory_to_calldata_optimization(su),
                O::MultipleRequire => o::multiple_require::multiple_require_optimization(su),
                O::PackStorageVariables => o::pack_storage_variables::pack_storage_variables_optimization(su),
                O::PackStructVariables => o::pack_struct_variables::pack_struct_variables_optimization(su),
                O::PayableFunction => o::payable_function::payable_function_optimization(su),
                O::PrivateConstant => o::private_constant::private_constant_optimization(su),
                O::SafeMathPre080 => o::safe_math::safe_math_pre_080_optimization(su),
                O::SafeMathPost080 => o::safe_math::safe_math_post_080_optimization(su),
                O::ShiftMath => o::shift_math::shift_math_optimization(su),
                O::SolidityKeccak256 => o::solidity_keccak256::solidity_keccak256_optimization(su),
                O::SolidityMath => o::solidity_math::solidity_math_optimization(su),
                O::Sstore => o::sstore::sstore_optimization(su),
                O::StringErrors => o::string_errors::string_error_optimization(su),
                O::OptimalComparison => o::optimal_comparison::optimal_comparison_optimization(su),
                O::ShortRevertString => o::short_revert_string::short_revert_string_optimization(su),
            },
            Det::Vuln(x) => match x {
                V::FloatingPragma => v::floating_pragma::floating_pragma_vulnerability(su),
                V::UnsafeERC20Operation => v::unsafe_erc20_operation::unsafe_erc20_operation_vulnerability(su),
                V::UnprotectedSelfdestruct => v::unprotected_selfdestruct::unprotected_selfdestruct_vulnerability(su),
                V::DivideBeforeMultiply => v::divide_before_multiply::divide_before_multiply_vulnerability(su),
            },
            Det::Qa(x) => match x {
                Q::ConstructorOrder => q::constructor_order::constructor_order_qa(su),
                Q::PrivateVarsLeadingUnderscore => q::private_vars_leading_underscore::private_vars_leading_underscore(su),
                Q::PrivateFuncLeadingUnderscore => q::private_func_leading_underscore::private_func_leading_underscore(su),
            },
        }
    }
}

pub fn parses(text: &str) -> bool {
    solang_parser::parse(text, 0).is_ok()
}

pub fn ref_line(text: &str, off: usize) -> i32 {
    1 + text.as_bytes()[..off.min(text.len())].iter().filter(|b| **b == b'\n').count() as i32
}
