//! Deeply nested inputs: long operator chains, else-if chains, nested parentheses / blocks / calls.
//! Text form for the traversal monitor (C01) and the independence monitor (C15); G-AST form, with
//! detector-relevant constructs at the deepest point, for the spec monitors (C05, C07, C08).
use crate::common::Rng;
use crate::gast::*;
use crate::gen::{Builder, Cfg};

pub fn deep_texts() -> Vec<(String, String)> {
    let mut v = vec![];
    let wrap = |body: &str| format!("pragma solidity 0.8.17;\ncontract Deep {{\n  uint256 x;\n  uint256[] arr;\n  function f(uint256 a, uint256 b) public returns (uint256) {{\n    {}\n  }}\n}}\n", body);
    for n in [70usize, 150, 300] {
        for op in ["+", "||", "*", "&", "=="] {
            let chain: Vec<String> = (0..n).map(|i| format!("v{}", i)).collect();
            v.push((format!("chain:{}:{}", op, n), wrap(&format!("return {};", chain.join(&format!(" {} ", op))))));
        }
        v.push((format!("parens:{}", n), wrap(&format!("return {}a * 2 + b{};", "(".repeat(n), ")".repeat(n)))));
        v.push((format!("blocks:{}", n), wrap(&format!("{} x = a / 4; {} return x;", "{ ".repeat(n), "} ".repeat(n)))));
        v.push((format!("calls:{}", n), wrap(&format!("return {}a >= b{};", "g(".repeat(n), ")".repeat(n)))));
        v.push((format!("index:{}", n), wrap(&format!("return {}a{};", "arr[".repeat(n), "]".repeat(n)))));
        v.push((format!("ternary:{}", n), wrap(&format!("return {}b;", "a != 0 ? a : ".repeat(n)))));
        v.push((format!("prefix:{}", n), wrap(&format!("return {}a;", "~".repeat(n)))));
        let mut chain = String::new();
        for i in 0..n {
            chain.push_str(&format!("if (a == {}) {{ x = x + {}; token.transfer(msg.sender, a); }} else ", i, i));
        }
        chain.push_str("{ x++; arr[0] = arr[0] + 1; }");
        v.push((format!("else-if:{}", n), wrap(&format!("{} return x;", chain))));
        v.push((format!("member:{}", n), wrap(&format!("return a{}.length;", ".f".repeat(n)))));
    }
    v
}

/// A contract whose function bodies hold (a) a left-nested chain of `n` operators with detector-relevant
/// forms as the deepest operands and (b) an else-if chain of `n` branches with writes in the last branches.
pub fn deep_file(rng: &Rng, n: usize) -> File {
    let mut b = Builder::new(rng, Cfg::normal());
    let mut items = b.pragmas();
    let mut c = b.contract();
    c.kind = "contract";
    c.bases.clear();
    let mut parts: Vec<Part> = vec![];
    // state variables: one written only in the deepest else branch, one never written, one assigned in the constructor
    let mut mk_var = |b: &mut Builder, ty: &str| -> String {
        let mut v = b.state_var(false);
        v.ty = b.ty(ty);
        v.attrs.clear();
        v.init = None;
        let n = v.name.clone();
        parts.push(Part::Var(v));
        n
    };
    let deep_written = mk_var(&mut b, "uint256");
    let never_written = mk_var(&mut b, "uint256");
    let _ = never_written;
    let ctor_assigned = mk_var(&mut b, "address");
    let mut ctor = b.func(FnKind::Constructor, true, false);
    ctor.attrs.clear();
    ctor.params = Some(vec![]);
    let l = b.var(&ctor_assigned);
    let r = b.msg_sender();
    let asg = b.bin(BinOp::Assign, l, r);
    let s0 = b.st(S::Expr(asg));
    ctor.body = Some(b.st(S::Block { unchecked: false, stmts: vec![s0] }));
    parts.push(Part::Func(ctor));

    // (a) operator chain
    let mut f = b.func(FnKind::Function, true, false);
    f.attrs = vec![FAttr::Vis("public")];
    f.params = Some(vec![]);
    f.returns = None;
    let op = *rng.pick(&[BinOp::Add, BinOp::Or, BinOp::BitAnd, BinOp::Sub, BinOp::And]);
    // deepest operand: a canonical form of some detector
    let deepest = match rng.below(6) {
        0 => {
            let t = b.var("token");
            let m = b.member(t, "transfer");
            let a1 = b.var("x");
            let a2 = b.var("y");
            b.call(m, vec![a1, a2])
        }
        1 => {
            let k = b.var("keccak256");
            let a1 = b.var("data");
            b.call(k, vec![a1])
        }
        2 => {
            let a1 = b.var("x");
            let two = b.num("8");
            b.bin(BinOp::Mul, a1, two)
        }
        3 => {
            let a1 = b.var("x");
            let a2 = b.var("y");
            b.bin(BinOp::Ge, a1, a2)
        }
        4 => {
            let a1 = b.var("x");
            let a2 = b.var("y");
            let d = b.bin(BinOp::Div, a1, a2);
            let a3 = b.var("amount");
            b.bin(BinOp::Mul, d, a3)
        }
        _ => {
            let a1 = b.var(&deep_written);
            b.ex(E::PostInc(Box::new(a1)))
        }
    };
    let mut e = deepest;
    for i in 0..n {
        let leaf = b.var(&format!("t{}", i));
        e = b.bin(op, e, leaf);
    }
    let e = b.fin(e);
    let s1 = b.st(S::Expr(e));
    f.body = Some(b.st(S::Block { unchecked: false, stmts: vec![s1] }));
    parts.push(Part::Func(f));

    // (b) else-if chain, built from the innermost branch outwards
    let mut g = b.func(FnKind::Function, true, false);
    g.attrs = vec![FAttr::Vis("external")];
    g.params = Some(vec![]);
    g.returns = None;
    let l = b.var(&deep_written);
    let r = b.num("7");
    let w = b.bin(*rng.pick(&[BinOp::Assign, BinOp::AssignAdd, BinOp::AssignShl]), l, r);
    let ws = b.st(S::Expr(w));
    let sd_callee = b.var("selfdestruct");
    let sd_arg0 = b.msg_sender();
    let sd_arg = b.cast("payable", sd_arg0);
    let sd = b.call(sd_callee, vec![sd_arg]);
    let sds = b.st(S::Expr(sd));
    let mut tail: St = b.st(S::Block { unchecked: false, stmts: vec![ws, sds] });
    for i in (0..n).rev() {
        let a = b.var("x");
        let k = b.num(&format!("{}", i));
        let cond = b.bin(BinOp::Eq, a, k);
        let body_e = {
            let t = b.var("y");
            let one = b.num("1");
            b.bin(BinOp::AssignAdd, t, one)
        };
        let bs = b.st(S::Expr(body_e));
        let blk = b.st(S::Block { unchecked: false, stmts: vec![bs] });
        tail = b.st(S::If(cond, Box::new(blk), Some(Box::new(tail))));
    }
    g.body = Some(b.st(S::Block { unchecked: false, stmts: vec![tail] }));
    parts.push(Part::Func(g));
    c.parts = parts;
    items.push(Item::Contract(c));
    drop(b);
    File { items }
}
