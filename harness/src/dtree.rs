//! Generic tree reflection: parse the `Debug` rendering of a solang parse tree into a generic
//! tree, and pick out the nodes that are `pt` syntax nodes (source unit, parts, statements,
//! expressions) without enumerating child slots by hand.
use std::collections::HashMap;

#[derive(Clone, Copy, PartialEq, Eq, Debug)]
pub enum Style {
    Atom,
    Paren,
    Brace,
    List,
    Tuple,
    Str,
}

#[derive(Debug)]
pub struct GNode {
    pub name: String,
    pub style: Style,
    pub start: usize,
    pub end: usize,
    /// (field name for brace style, child index)
    pub children: Vec<(Option<String>, usize)>,
    pub parent: Option<usize>,
}

pub struct GTree<'a> {
    pub src: &'a str,
    pub nodes: Vec<GNode>,
    pub root: usize,
}

struct P<'a> {
    s: &'a [u8],
    i: usize,
    nodes: Vec<GNode>,
}

impl<'a> P<'a> {
    fn ws(&mut self) {
        while self.i < self.s.len() && self.s[self.i] == b' ' {
            self.i += 1;
        }
    }
    fn value(&mut self) -> Result<usize, String> {
        self.ws();
        let start = self.i;
        if self.i >= self.s.len() {
            return Err("eof".into());
        }
        let c = self.s[self.i];
        let idx = self.nodes.len();
        self.nodes.push(GNode { name: String::new(), style: Style::Atom, start, end: start, children: vec![], parent: None });
        if c == b'"' {
            self.i += 1;
            while self.i < self.s.len() && self.s[self.i] != b'"' {
                if self.s[self.i] == b'\\' {
                    self.i += 1;
                }
                self.i += 1;
            }
            self.i += 1;
            self.nodes[idx].style = Style::Str;
        } else if c == b'[' || c == b'(' {
            let close = if c == b'[' { b']' } else { b')' };
            self.i += 1;
            let kids = self.seq(close)?;
            self.nodes[idx].style = if c == b'[' { Style::List } else { Style::Tuple };
            self.nodes[idx].children = kids.into_iter().map(|k| (None, k)).collect();
        } else if c.is_ascii_alphanumeric() || c == b'_' || c == b'-' {
            while self.i < self.s.len() && (self.s[self.i].is_ascii_alphanumeric() || self.s[self.i] == b'_' || self.s[self.i] == b'-' || self.s[self.i] == b'.') {
                self.i += 1;
            }
            let name = std::str::from_utf8(&self.s[start..self.i]).unwrap().to_string();
            self.nodes[idx].name = name;
            if self.i < self.s.len() && self.s[self.i] == b'(' {
                self.i += 1;
                let kids = self.seq(b')')?;
                self.nodes[idx].style = Style::Paren;
                self.nodes[idx].children = kids.into_iter().map(|k| (None, k)).collect();
            } else if self.i + 1 < self.s.len() && self.s[self.i] == b' ' && self.s[self.i + 1] == b'{' {
                self.i += 2;
                self.nodes[idx].style = Style::Brace;
                let mut kids = vec![];
                loop {
                    self.ws();
                    if self.i < self.s.len() && self.s[self.i] == b'}' {
                        self.i += 1;
                        break;
                    }
                    let fs = self.i;
                    while self.i < self.s.len() && self.s[self.i] != b':' {
                        self.i += 1;
                    }
                    let fname = std::str::from_utf8(&self.s[fs..self.i]).unwrap().to_string();
                    self.i += 1;
                    let k = self.value()?;
                    kids.push((Some(fname), k));
                    self.ws();
                    if self.i < self.s.len() && self.s[self.i] == b',' {
                        self.i += 1;
                    }
                }
                self.nodes[idx].children = kids;
            }
        } else {
            return Err(format!("unexpected byte {:?} at {}", c as char, self.i));
        }
        self.nodes[idx].end = self.i;
        let kids: Vec<usize> = self.nodes[idx].children.iter().map(|c| c.1).collect();
        for k in kids {
            self.nodes[k].parent = Some(idx);
        }
        Ok(idx)
    }
    fn seq(&mut self, close: u8) -> Result<Vec<usize>, String> {
        let mut kids = vec![];
        loop {
            self.ws();
            if self.i >= self.s.len() {
                return Err("eof in sequence".into());
            }
            if self.s[self.i] == close {
                self.i += 1;
                break;
            }
            kids.push(self.value()?);
            self.ws();
            if self.i < self.s.len() && self.s[self.i] == b',' {
                self.i += 1;
            }
        }
        Ok(kids)
    }
}

pub fn parse(debug: &str) -> Result<GTree<'_>, String> {
    let mut p = P { s: debug.as_bytes(), i: 0, nodes: vec![] };
    let root = p.value()?;
    p.ws();
    if p.i != debug.len() {
        return Err(format!("trailing input at {}", p.i));
    }
    Ok(GTree { src: debug, nodes: p.nodes, root })
}

const PART_NAMES: [&str; 12] = [
    "ContractDefinition", "PragmaDirective", "ImportDirective", "EnumDefinition", "StructDefinition", "EventDefinition",
    "ErrorDefinition", "FunctionDefinition", "VariableDefinition", "TypeDefinition", "Using", "StraySemicolon",
];
const STMT_NAMES: [&str; 12] = [
    "Args", "If", "While", "Expression", "For", "DoWhile", "Return", "Revert", "RevertNamedArgs", "Emit", "Try", "VariableDefinition",
];
/// statements without a Target kind (as_target() == None): present in the tree but never demanded
const STMT_NOKIND: [&str; 2] = ["Continue", "Break"];
pub const EXPR_NAMES: [&str; 61] = [
    "PostIncrement", "PostDecrement", "New", "ArraySubscript", "ArraySlice", "Parenthesis", "MemberAccess", "FunctionCall",
    "FunctionCallBlock", "NamedFunctionCall", "Not", "Complement", "Delete", "PreIncrement", "PreDecrement", "UnaryPlus",
    "UnaryMinus", "Power", "Multiply", "Divide", "Modulo", "Add", "Subtract", "ShiftLeft", "ShiftRight", "BitwiseAnd",
    "BitwiseXor", "BitwiseOr", "Less", "More", "LessEqual", "MoreEqual", "Equal", "NotEqual", "And", "Or", "Ternary", "Assign",
    "AssignOr", "AssignAnd", "AssignXor", "AssignShiftLeft", "AssignShiftRight", "AssignAdd", "AssignSubtract",
    "AssignMultiply", "AssignDivide", "AssignModulo", "BoolLiteral", "NumberLiteral", "RationalNumberLiteral",
    "HexNumberLiteral", "StringLiteral", "Type", "HexLiteral", "AddressLiteral", "Variable", "List", "ArrayLiteral", "Unit", "This",
];

#[derive(Clone, Debug)]
pub struct PtNode {
    pub g: usize,
    /// Target kind name (== variant name)
    pub kind: String,
    /// edge by which it is reached from the nearest pt ancestor, e.g. "Try/3/[]/Simple/2"
    pub edge: String,
    pub depth: usize,
    /// index (in the pt list) one past the last descendant
    pub sub_end: usize,
}

impl<'a> GTree<'a> {
    pub fn text(&self, g: usize) -> &'a str {
        &self.src[self.nodes[g].start..self.nodes[g].end]
    }

    fn is_pt(&self, g: usize) -> Option<&'static str> {
        let n = &self.nodes[g];
        match n.style {
            Style::Paren => {
                if n.name == "SourceUnit" {
                    return Some("SourceUnit");
                }
                for k in PART_NAMES.iter().chain(STMT_NAMES.iter()).chain(EXPR_NAMES.iter()) {
                    if !k.is_empty() && *k == n.name {
                        return Some(k);
                    }
                }
                for k in STMT_NOKIND.iter() {
                    if *k == n.name {
                        return Some("None");
                    }
                }
                None
            }
            Style::Brace => {
                if n.name == "Block" {
                    Some("Block")
                } else if n.name == "Assembly" {
                    Some("None")
                } else {
                    None
                }
            }
            _ => None,
        }
    }

    /// pre-order list of pt nodes (outside assembly) with their edges
    pub fn pt_nodes(&self) -> Vec<PtNode> {
        let mut out = vec![];
        self.collect(self.root, String::new(), 0, &mut out);
        out
    }

    fn collect(&self, g: usize, path: String, depth: usize, out: &mut Vec<PtNode>) {
        let n = &self.nodes[g];
        let kind = self.is_pt(g);
        let me = if let Some(k) = kind {
            out.push(PtNode { g, kind: k.to_string(), edge: path.clone(), depth, sub_end: 0 });
            Some(out.len() - 1)
        } else {
            None
        };
        if n.style == Style::Brace && n.name == "Assembly" {
            if let Some(m) = me {
                out[m].sub_end = out.len();
            }
            return;
        }
        for (i, (f, c)) in n.children.iter().enumerate() {
            let seg = match (n.style, f) {
                (Style::List, _) => "[]".to_string(),
                (_, Some(f)) => f.trim().to_string(),
                _ => i.to_string(),
            };
            let label = if n.style == Style::List || n.style == Style::Tuple || n.name == "Some" { seg } else { format!("{}.{}", n.name, seg) };
            let np = if kind.is_some() { label } else if path.is_empty() { label } else { format!("{}/{}", path, label) };
            self.collect(*c, np, depth + if kind.is_some() { 1 } else { 0 }, out);
        }
        if let Some(m) = me {
            out[m].sub_end = out.len();
        }
    }

    pub fn index_by_text(&self, pts: &[PtNode]) -> HashMap<&'a str, usize> {
        let mut m = HashMap::new();
        for (i, p) in pts.iter().enumerate() {
            m.insert(self.text(p.g), i);
        }
        m
    }
}
