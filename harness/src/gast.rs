//! Generator-side AST of Solidity programs ("G-AST") and its renderer to a token list.
//! The oracles of C05–C09 ask structural questions of this tree, never of solstat's.

pub type Id = usize;

#[derive(Clone, Copy, PartialEq, Eq, Debug, Hash)]
pub enum BinOp {
    Add, Sub, Mul, Div, Mod, Pow, Shl, Shr, BitAnd, BitOr, BitXor, Lt, Gt, Le, Ge, Eq, Ne, And, Or,
    Assign, AssignOr, AssignAnd, AssignXor, AssignShl, AssignShr, AssignAdd, AssignSub, AssignMul, AssignDiv, AssignMod,
}

pub const ARITH_BIN: [BinOp; 11] = [BinOp::Add, BinOp::Sub, BinOp::Mul, BinOp::Div, BinOp::Mod, BinOp::Pow, BinOp::Shl, BinOp::Shr, BinOp::BitAnd, BinOp::BitOr, BinOp::BitXor];
pub const CMP_BIN: [BinOp; 6] = [BinOp::Lt, BinOp::Gt, BinOp::Le, BinOp::Ge, BinOp::Eq, BinOp::Ne];
pub const ASSIGN_BIN: [BinOp; 11] = [
    BinOp::Assign, BinOp::AssignOr, BinOp::AssignAnd, BinOp::AssignXor, BinOp::AssignShl, BinOp::AssignShr, BinOp::AssignAdd,
    BinOp::AssignSub, BinOp::AssignMul, BinOp::AssignDiv, BinOp::AssignMod,
];

impl BinOp {
    pub fn sym(&self) -> &'static str {
        use BinOp::*;
        match self {
            Add => "+", Sub => "-", Mul => "*", Div => "/", Mod => "%", Pow => "**", Shl => "<<", Shr => ">>", BitAnd => "&",
            BitOr => "|", BitXor => "^", Lt => "<", Gt => ">", Le => "<=", Ge => ">=", Eq => "==", Ne => "!=", And => "&&", Or => "||",
            Assign => "=", AssignOr => "|=", AssignAnd => "&=", AssignXor => "^=", AssignShl => "<<=", AssignShr => ">>=",
            AssignAdd => "+=", AssignSub => "-=", AssignMul => "*=", AssignDiv => "/=", AssignMod => "%=",
        }
    }
    pub fn kind(&self) -> &'static str {
        use BinOp::*;
        match self {
            Add => "Add", Sub => "Subtract", Mul => "Multiply", Div => "Divide", Mod => "Modulo", Pow => "Power", Shl => "ShiftLeft",
            Shr => "ShiftRight", BitAnd => "BitwiseAnd", BitOr => "BitwiseOr", BitXor => "BitwiseXor", Lt => "Less", Gt => "More",
            Le => "LessEqual", Ge => "MoreEqual", Eq => "Equal", Ne => "NotEqual", And => "And", Or => "Or", Assign => "Assign",
            AssignOr => "AssignOr", AssignAnd => "AssignAnd", AssignXor => "AssignXor", AssignShl => "AssignShiftLeft",
            AssignShr => "AssignShiftRight", AssignAdd => "AssignAdd", AssignSub => "AssignSubtract", AssignMul => "AssignMultiply",
            AssignDiv => "AssignDivide", AssignMod => "AssignModulo",
        }
    }
    /// grammar level of the production (14 = assignment … 3 = power)
    pub fn level(&self) -> u8 {
        use BinOp::*;
        match self {
            Or => 13, And => 12, Eq | Ne => 11, Lt | Gt | Le | Ge => 10, BitOr => 9, BitXor => 8, BitAnd => 7, Shl | Shr => 6,
            Add | Sub => 5, Mul | Div | Mod => 4, Pow => 3, _ => 14,
        }
    }
    pub fn is_assign(&self) -> bool {
        self.level() == 14
    }
    /// maximal level allowed for (left, right) operands
    pub fn operand_levels(&self) -> (u8, u8) {
        let l = self.level();
        match l {
            14 => (13, 14),
            3 => (2, 3),
            _ => (l, l - 1),
        }
    }
}

#[derive(Clone, Copy, PartialEq, Eq, Debug, Hash)]
pub enum UnOp {
    Not, Complement, Delete, New, PreInc, PreDec, Plus, Minus,
}

impl UnOp {
    pub fn sym(&self) -> &'static str {
        match self {
            UnOp::Not => "!", UnOp::Complement => "~", UnOp::Delete => "delete", UnOp::New => "new", UnOp::PreInc => "++",
            UnOp::PreDec => "--", UnOp::Plus => "+", UnOp::Minus => "-",
        }
    }
    pub fn kind(&self) -> &'static str {
        match self {
            UnOp::Not => "Not", UnOp::Complement => "Complement", UnOp::Delete => "Delete", UnOp::New => "New",
            UnOp::PreInc => "PreIncrement", UnOp::PreDec => "PreDecrement", UnOp::Plus => "UnaryPlus", UnOp::Minus => "UnaryMinus",
        }
    }
}

#[derive(Clone, Debug)]
pub struct Param {
    pub ty: Ex,
    pub storage: Option<&'static str>,
    pub name: Option<String>,
}

#[derive(Clone, Debug)]
pub enum E {
    Var(String),
    /// decimal integer literal: (digits possibly with '_', exponent digits or "")
    Num(String, String),
    /// rational literal: integer part, fraction, exponent
    Rational(String, String, String),
    HexNum(String),
    /// one or more adjacent string literal tokens, each given verbatim (with quotes / unicode prefix)
    Str(Vec<String>),
    HexStr(Vec<String>),
    AddrLit(String),
    Bool(bool),
    This,
    Bin(BinOp, Box<Ex>, Box<Ex>),
    Un(UnOp, Box<Ex>),
    PostInc(Box<Ex>),
    PostDec(Box<Ex>),
    Paren(Box<Ex>),
    Ternary(Box<Ex>, Box<Ex>, Box<Ex>),
    Call(Box<Ex>, Vec<Ex>),
    NamedCall(Box<Ex>, Vec<(String, Ex)>),
    /// f{value: x}
    CallBlock(Box<Ex>, Vec<(String, Ex)>, Id),
    Member(Box<Ex>, String),
    Index(Box<Ex>, Option<Box<Ex>>),
    Slice(Box<Ex>, Option<Box<Ex>>, Option<Box<Ex>>),
    ArrayLit(Vec<Ex>),
    /// tuple / parameter list with >= 2 slots or 0 slots, or one slot with storage/name
    List(Vec<Option<Param>>),
    /// elementary type keyword(s): "uint256", "address", "address payable", "payable", "bool", "string", "bytes", "bytes4"
    Type(String),
    Mapping(Box<Ex>, Box<Ex>),
    FnType { params: Vec<Param>, attrs: Vec<&'static str>, returns: Option<Vec<Param>> },
    Unit(Box<Ex>, &'static str),
}

#[derive(Clone, Debug)]
pub struct Ex {
    pub id: Id,
    pub e: E,
}

#[derive(Clone, Debug)]
pub enum Catch {
    Simple(Option<Param>, St),
    Named(String, Param, St),
}

#[derive(Clone, Debug)]
pub enum S {
    Expr(Ex),
    VarDef { ty: Ex, storage: Option<&'static str>, name: String, init: Option<Ex> },
    Block { unchecked: bool, stmts: Vec<St> },
    If(Ex, Box<St>, Option<Box<St>>),
    While(Ex, Box<St>),
    DoWhile(Box<St>, Ex),
    For { init: Option<Box<St>>, cond: Option<Ex>, next: Option<Box<St>>, body: Option<Box<St>> },
    Return(Option<Ex>),
    Emit(Ex),
    Revert(Option<String>, Vec<Ex>),
    RevertNamed(Option<String>, Vec<(String, Ex)>),
    Try { expr: Ex, returns: Option<(Vec<Param>, Box<St>)>, catches: Vec<Catch> },
    Break,
    Continue,
    /// raw token list of an inline-assembly block (after the keyword)
    Assembly(Vec<String>),
}

#[derive(Clone, Debug)]
pub struct St {
    pub id: Id,
    pub s: S,
}

#[derive(Clone, Copy, PartialEq, Eq, Debug, Hash)]
pub enum FnKind {
    Function, Constructor, Fallback, Receive, Modifier,
}

#[derive(Clone, Debug)]
pub enum FAttr {
    Vis(&'static str),
    Mut(&'static str),
    Virtual,
    Override(Vec<String>),
    /// modifier invocation or base constructor call
    Modifier(String, Option<Vec<Ex>>),
}

#[derive(Clone, Debug)]
pub struct Func {
    pub id: Id,
    pub kind: FnKind,
    pub name: Option<String>,
    /// modifiers may omit the parameter list entirely
    pub params: Option<Vec<Param>>,
    pub attrs: Vec<FAttr>,
    pub returns: Option<Vec<Param>>,
    pub body: Option<St>,
}

#[derive(Clone, Debug)]
pub struct VarDecl {
    pub id: Id,
    pub ty: Ex,
    /// "public" | "private" | "internal" | "constant" | "immutable" | "override"
    pub attrs: Vec<&'static str>,
    pub name: String,
    pub init: Option<Ex>,
}

#[derive(Clone, Debug)]
pub struct StructDef {
    pub id: Id,
    pub name: String,
    pub fields: Vec<(Ex, Option<&'static str>, String)>,
}

#[derive(Clone, Debug)]
pub enum Part {
    Var(VarDecl),
    Func(Func),
    Struct(StructDef),
    Enum(Id, String, Vec<String>),
    Event(Id, String, Vec<(Ex, bool, Option<String>)>, bool),
    Error(Id, String, Vec<(Ex, Option<String>)>),
    /// using <lib-or-{fns}> for <ty|*> [global]
    Using(Id, Vec<String>, bool, Option<Ex>, bool),
    TypeDef(Id, String, Ex),
    Stray(Id),
}

#[derive(Clone, Debug)]
pub struct Contract {
    pub id: Id,
    /// "contract" | "abstract contract" | "interface" | "library"
    pub kind: &'static str,
    pub name: String,
    pub bases: Vec<(String, Option<Vec<Ex>>)>,
    pub parts: Vec<Part>,
}

#[derive(Clone, Debug)]
pub enum Item {
    /// (identifier, raw value)
    Pragma(Id, String, String),
    /// raw tokens between `import` and `;`
    Import(Id, Vec<String>),
    Contract(Contract),
    Part(Part),
}

#[derive(Clone, Debug, Default)]
pub struct File {
    pub items: Vec<Item>,
}

// ---------------------------------------------------------------- rendering

#[derive(Clone, Debug)]
pub struct Tok {
    pub s: String,
    /// only white space may precede this token (pragma internals)
    pub ws_only_before: bool,
    /// inside a pragma: this token may follow the previous one without any gap (`^0.8.0`, `0.8.0<0.9.0`, `0.8.0;`)
    pub glue_ok: bool,
}

#[derive(Clone, Debug)]
pub struct NodeRec {
    pub id: Id,
    pub kind: &'static str,
    /// index of the node's first token
    pub first_tok: usize,
    /// index of the token at which the parser's Loc starts (differs for Parenthesis)
    pub loc_tok: usize,
    /// inside an inline assembly statement's subtree? (never, assembly has no G nodes)
    pub depth: usize,
}

#[derive(Default)]
pub struct Rendered {
    pub toks: Vec<Tok>,
    /// pre-order list of pt-level nodes
    pub nodes: Vec<NodeRec>,
    pub by_id: std::collections::HashMap<Id, usize>,
    /// token index of the data-location keyword of a parameter, keyed by the id of the parameter's type expression
    pub param_storage_tok: std::collections::HashMap<Id, usize>,
    depth: usize,
}

impl Rendered {
    fn t(&mut self, s: &str) {
        self.toks.push(Tok { s: s.to_string(), ws_only_before: false, glue_ok: false });
    }
    fn tw(&mut self, s: &str) {
        self.toks.push(Tok { s: s.to_string(), ws_only_before: true, glue_ok: false });
    }
    fn twg(&mut self, s: &str, glue_ok: bool) {
        self.toks.push(Tok { s: s.to_string(), ws_only_before: true, glue_ok });
    }
    fn enter(&mut self, id: Id, kind: &'static str) -> usize {
        let i = self.nodes.len();
        self.nodes.push(NodeRec { id, kind, first_tok: self.toks.len(), loc_tok: self.toks.len(), depth: self.depth });
        self.by_id.insert(id, i);
        self.depth += 1;
        i
    }
    fn leave(&mut self) {
        self.depth -= 1;
    }
    pub fn first_tok_of(&self, id: Id) -> Option<usize> {
        self.by_id.get(&id).map(|i| self.nodes[*i].first_tok)
    }
    pub fn loc_tok_of(&self, id: Id) -> Option<usize> {
        self.by_id.get(&id).map(|i| self.nodes[*i].loc_tok)
    }
}

pub fn render(f: &File) -> Rendered {
    let mut r = Rendered::default();
    // SourceUnit itself is node id usize::MAX
    r.enter(usize::MAX, "SourceUnit");
    for it in &f.items {
        r_item(&mut r, it);
    }
    r.leave();
    r
}

/// The tokens of a pragma's raw value: comments dropped, operators (`||`, `>=`, `<=`, `>`, `<`, `=`, `^`, `~`) and the
/// atoms between them; each with a flag saying whether it may follow its predecessor without a gap.
pub fn pragma_value_tokens(raw: &str) -> Vec<(String, bool)> {
    // drop comments
    let b: Vec<char> = raw.chars().collect();
    let mut clean = String::new();
    let mut i = 0;
    while i < b.len() {
        if b[i] == '/' && i + 1 < b.len() && b[i + 1] == '*' {
            let mut j = i + 2;
            while j + 1 < b.len() && !(b[j] == '*' && b[j + 1] == '/') {
                j += 1;
            }
            i = (j + 2).min(b.len());
            clean.push(' ');
        } else if b[i] == '/' && i + 1 < b.len() && b[i + 1] == '/' {
            while i < b.len() && b[i] != '\n' && b[i] != '\r' {
                i += 1;
            }
            clean.push(' ');
        } else {
            clean.push(b[i]);
            i += 1;
        }
    }
    let c: Vec<char> = clean.chars().collect();
    let ops = ["||", ">=", "<=", ">", "<", "=", "^", "~"];
    let mut out: Vec<(String, bool, bool)> = vec![]; // (text, is operator, preceded by a gap in the source)
    let mut i = 0;
    let mut gap = true;
    while i < c.len() {
        if c[i].is_whitespace() {
            gap = true;
            i += 1;
            continue;
        }
        let rest: String = c[i..].iter().take(2).collect();
        if let Some(op) = ops.iter().find(|o| rest.starts_with(**o)) {
            out.push((op.to_string(), true, gap));
            i += op.chars().count();
            gap = false;
            continue;
        }
        let mut j = i;
        while j < c.len() && !c[j].is_whitespace() && !matches!(c[j], '|' | '>' | '<' | '=' | '^' | '~') {
            j += 1;
        }
        if j == i {
            // a lone `|`
            j = i + 1;
        }
        out.push((c[i..j].iter().collect(), false, gap));
        i = j;
        gap = false;
    }
    let mut res = vec![];
    for k in 0..out.len() {
        let glue = if k == 0 {
            out[0].1 // `solidity^0.8.0`
        } else {
            let (prev_op, cur_op) = (out[k - 1].1, out[k].1);
            (prev_op != cur_op) || (prev_op && cur_op && out[k - 1].0 == "||")
        };
        res.push((out[k].0.clone(), glue));
    }
    res
}

fn r_item(r: &mut Rendered, it: &Item) {
    match it {
        Item::Pragma(id, name, value) => {
            r.enter(*id, "PragmaDirective");
            r.t("pragma");
            r.tw(name);
            // operators and versions of the value are separate tokens of the language (solang's lexer hands the whole
            // value over as one raw string): layouts may change the gaps between them
            for (part, glue) in pragma_value_tokens(value) {
                r.twg(&part, glue);
            }
            r.twg(";", true);
            r.leave();
        }
        Item::Import(id, toks) => {
            r.enter(*id, "ImportDirective");
            r.t("import");
            for t in toks {
                r.t(t);
            }
            r.t(";");
            r.leave();
        }
        Item::Contract(c) => {
            r.enter(c.id, "ContractDefinition");
            for w in c.kind.split(' ') {
                r.t(w);
            }
            r.t(&c.name);
            if !c.bases.is_empty() {
                r.t("is");
                for (i, (b, args)) in c.bases.iter().enumerate() {
                    if i > 0 {
                        r.t(",");
                    }
                    r_path(r, b);
                    if let Some(a) = args {
                        r.t("(");
                        r_commas(r, a);
                        r.t(")");
                    }
                }
            }
            r.t("{");
            for p in &c.parts {
                r_part(r, p);
            }
            r.t("}");
            r.leave();
        }
        Item::Part(p) => r_part(r, p),
    }
}

fn r_path(r: &mut Rendered, p: &str) {
    for (i, seg) in p.split('.').enumerate() {
        if i > 0 {
            r.t(".");
        }
        r.t(seg);
    }
}

fn r_commas(r: &mut Rendered, es: &[Ex]) {
    for (i, e) in es.iter().enumerate() {
        if i > 0 {
            r.t(",");
        }
        r_expr(r, e);
    }
}

fn r_named(r: &mut Rendered, args: &[(String, Ex)]) {
    for (i, (n, e)) in args.iter().enumerate() {
        if i > 0 {
            r.t(",");
        }
        r.t(n);
        r.t(":");
        r_expr(r, e);
    }
}

fn r_param(r: &mut Rendered, p: &Param) {
    r_expr(r, &p.ty);
    if let Some(s) = p.storage {
        r.param_storage_tok.insert(p.ty.id, r.toks.len());
        r.t(s);
    }
    if let Some(n) = &p.name {
        r.t(n);
    }
}

fn r_params(r: &mut Rendered, ps: &[Param]) {
    r.t("(");
    for (i, p) in ps.iter().enumerate() {
        if i > 0 {
            r.t(",");
        }
        r_param(r, p);
    }
    r.t(")");
}

fn r_part(r: &mut Rendered, p: &Part) {
    match p {
        Part::Var(v) => {
            r.enter(v.id, "VariableDefinition");
            r_expr(r, &v.ty);
            for a in &v.attrs {
                r.t(a);
            }
            r.t(&v.name);
            if let Some(i) = &v.init {
                r.t("=");
                r_expr(r, i);
            }
            r.t(";");
            r.leave();
        }
        Part::Func(f) => r_func(r, f),
        Part::Struct(s) => {
            r.enter(s.id, "StructDefinition");
            r.t("struct");
            r.t(&s.name);
            r.t("{");
            for (ty, st, n) in &s.fields {
                r_expr(r, ty);
                if let Some(s) = st {
                    r.t(s);
                }
                r.t(n);
                r.t(";");
            }
            r.t("}");
            r.leave();
        }
        Part::Enum(id, n, vals) => {
            r.enter(*id, "EnumDefinition");
            r.t("enum");
            r.t(n);
            r.t("{");
            for (i, v) in vals.iter().enumerate() {
                if i > 0 {
                    r.t(",");
                }
                r.t(v);
            }
            r.t("}");
            r.leave();
        }
        Part::Event(id, n, fields, anon) => {
            r.enter(*id, "EventDefinition");
            r.t("event");
            r.t(n);
            r.t("(");
            for (i, (ty, idx, name)) in fields.iter().enumerate() {
                if i > 0 {
                    r.t(",");
                }
                r_expr(r, ty);
                if *idx {
                    r.t("indexed");
                }
                if let Some(n) = name {
                    r.t(n);
                }
            }
            r.t(")");
            if *anon {
                r.t("anonymous");
            }
            r.t(";");
            r.leave();
        }
        Part::Error(id, n, fields) => {
            r.enter(*id, "ErrorDefinition");
            r.t("error");
            r.t(n);
            r.t("(");
            for (i, (ty, name)) in fields.iter().enumerate() {
                if i > 0 {
                    r.t(",");
                }
                r_expr(r, ty);
                if let Some(n) = name {
                    r.t(n);
                }
            }
            r.t(")");
            r.t(";");
            r.leave();
        }
        Part::Using(id, list, braces, ty, global) => {
            r.enter(*id, "Using");
            r.t("using");
            if *braces {
                r.t("{");
                for (i, p) in list.iter().enumerate() {
                    if i > 0 {
                        r.t(",");
                    }
                    r_path(r, p);
                }
                r.t("}");
            } else {
                r_path(r, &list[0]);
            }
            r.t("for");
            match ty {
                Some(t) => r_expr(r, t),
                None => r.t("*"),
            }
            if *global {
                r.t("global");
            }
            r.t(";");
            r.leave();
        }
        Part::TypeDef(id, n, ty) => {
            r.enter(*id, "TypeDefinition");
            r.t("type");
            r.t(n);
            r.t("is");
            r_expr(r, ty);
            r.t(";");
            r.leave();
        }
        Part::Stray(id) => {
            r.enter(*id, "StraySemicolon");
            r.t(";");
            r.leave();
        }
    }
}

fn r_func(r: &mut Rendered, f: &Func) {
    r.enter(f.id, "FunctionDefinition");
    match f.kind {
        FnKind::Function => r.t("function"),
        FnKind::Constructor => r.t("constructor"),
        FnKind::Fallback => r.t("fallback"),
        FnKind::Receive => r.t("receive"),
        FnKind::Modifier => r.t("modifier"),
    }
    if let Some(n) = &f.name {
        r.t(n);
    }
    if let Some(ps) = &f.params {
        r_params(r, ps);
    }
    for a in &f.attrs {
        match a {
            FAttr::Vis(s) | FAttr::Mut(s) => r.t(s),
            FAttr::Virtual => r.t("virtual"),
            FAttr::Override(list) => {
                r.t("override");
                if !list.is_empty() {
                    r.t("(");
                    for (i, p) in list.iter().enumerate() {
                        if i > 0 {
                            r.t(",");
                        }
                        r_path(r, p);
                    }
                    r.t(")");
                }
            }
            FAttr::Modifier(n, args) => {
                r_path(r, n);
                if let Some(a) = args {
                    r.t("(");
                    r_commas(r, a);
                    r.t(")");
                }
            }
        }
    }
    if let Some(rs) = &f.returns {
        r.t("returns");
        r_params(r, rs);
    }
    match &f.body {
        Some(b) => r_stmt(r, b),
        None => r.t(";"),
    }
    r.leave();
}

fn r_stmt(r: &mut Rendered, st: &St) {
    match &st.s {
        S::Expr(e) => {
            r.enter(st.id, "Expression");
            r_expr(r, e);
            r.t(";");
            r.leave();
        }
        S::VarDef { .. } => {
            r_simple(r, st);
            r.t(";");
        }
        S::Block { unchecked, stmts } => {
            r.enter(st.id, "Block");
            if *unchecked {
                r.t("unchecked");
            }
            r.t("{");
            for s in stmts {
                r_stmt(r, s);
            }
            r.t("}");
            r.leave();
        }
        S::If(c, a, b) => {
            r.enter(st.id, "If");
            r.t("if");
            r.t("(");
            r_expr(r, c);
            r.t(")");
            r_stmt(r, a);
            if let Some(b) = b {
                r.t("else");
                r_stmt(r, b);
            }
            r.leave();
        }
        S::While(c, b) => {
            r.enter(st.id, "While");
            r.t("while");
            r.t("(");
            r_expr(r, c);
            r.t(")");
            r_stmt(r, b);
            r.leave();
        }
        S::DoWhile(b, c) => {
            r.enter(st.id, "DoWhile");
            r.t("do");
            r_stmt(r, b);
            r.t("while");
            r.t("(");
            r_expr(r, c);
            r.t(")");
            r.t(";");
            r.leave();
        }
        S::For { init, cond, next, body } => {
            r.enter(st.id, "For");
            r.t("for");
            r.t("(");
            if let Some(i) = init {
                r_simple(r, i);
            }
            r.t(";");
            if let Some(c) = cond {
                r_expr(r, c);
            }
            r.t(";");
            if let Some(n) = next {
                r_simple(r, n);
            }
            r.t(")");
            match body {
                Some(b) => r_stmt(r, b),
                None => r.t(";"),
            }
            r.leave();
        }
        S::Return(e) => {
            r.enter(st.id, "Return");
            r.t("return");
            if let Some(e) = e {
                r_expr(r, e);
            }
            r.t(";");
            r.leave();
        }
        S::Emit(e) => {
            r.enter(st.id, "Emit");
            r.t("emit");
            r_expr(r, e);
            r.t(";");
            r.leave();
        }
        S::Revert(p, args) => {
            r.enter(st.id, "Revert");
            r.t("revert");
            if let Some(p) = p {
                r_path(r, p);
            }
            r.t("(");
            r_commas(r, args);
            r.t(")");
            r.t(";");
            r.leave();
        }
        S::RevertNamed(p, args) => {
            r.enter(st.id, "RevertNamedArgs");
            r.t("revert");
            if let Some(p) = p {
                r_path(r, p);
            }
            r.t("(");
            r.t("{");
            r_named(r, args);
            r.t("}");
            r.t(")");
            r.t(";");
            r.leave();
        }
        S::Try { expr, returns, catches } => {
            r.enter(st.id, "Try");
            r.t("try");
            match returns {
                Some((ps, b)) if ps.is_empty() => {
                    // a success block without a `returns` clause: the parser reads `expr { .. }` as a call with a block
                    // attached (FunctionCallBlock), so the block hangs below an expression
                    r.enter(st.id | (1 << 62), "FunctionCallBlock");
                    r_expr(r, expr);
                    r_stmt(r, b);
                    r.leave();
                }
                Some((ps, b)) => {
                    r_expr(r, expr);
                    r.t("returns");
                    r_params(r, ps);
                    r_stmt(r, b);
                }
                None => r_expr(r, expr),
            }
            for c in catches {
                r.t("catch");
                match c {
                    Catch::Simple(p, b) => {
                        if let Some(p) = p {
                            r.t("(");
                            r_param(r, p);
                            r.t(")");
                        }
                        r_stmt(r, b);
                    }
                    Catch::Named(n, p, b) => {
                        r.t(n);
                        r.t("(");
                        r_param(r, p);
                        r.t(")");
                        r_stmt(r, b);
                    }
                }
            }
            r.leave();
        }
        S::Break => {
            r.enter(st.id, "None");
            r.t("break");
            r.t(";");
            r.leave();
        }
        S::Continue => {
            r.enter(st.id, "None");
            r.t("continue");
            r.t(";");
            r.leave();
        }
        S::Assembly(toks) => {
            r.enter(st.id, "None");
            r.t("assembly");
            for t in toks {
                r.t(t);
            }
            r.leave();
        }
    }
}

/// SimpleStatement without the trailing semicolon (for-init, for-next)
fn r_simple(r: &mut Rendered, st: &St) {
    match &st.s {
        S::Expr(e) => {
            r.enter(st.id, "Expression");
            r_expr(r, e);
            r.leave();
        }
        S::VarDef { ty, storage, name, init } => {
            r.enter(st.id, "VariableDefinition");
            r_expr(r, ty);
            if let Some(s) = storage {
                r.t(s);
            }
            r.t(name);
            if let Some(i) = init {
                r.t("=");
                r_expr(r, i);
            }
            r.leave();
        }
        _ => panic!("not a simple statement"),
    }
}

fn r_expr(r: &mut Rendered, ex: &Ex) {
    let id = ex.id;
    match &ex.e {
        E::Var(n) => {
            r.enter(id, "Variable");
            r.t(n);
            r.leave();
        }
        E::Num(i, e) => {
            r.enter(id, "NumberLiteral");
            if e.is_empty() {
                r.t(i);
            } else {
                r.t(&format!("{}e{}", i, e));
            }
            r.leave();
        }
        E::Rational(i, f, e) => {
            r.enter(id, "RationalNumberLiteral");
            if e.is_empty() {
                r.t(&format!("{}.{}", i, f));
            } else {
                r.t(&format!("{}.{}e{}", i, f, e));
            }
            r.leave();
        }
        E::HexNum(h) => {
            r.enter(id, "HexNumberLiteral");
            r.t(h);
            r.leave();
        }
        E::Str(parts) => {
            r.enter(id, "StringLiteral");
            for p in parts {
                r.t(p);
            }
            r.leave();
        }
        E::HexStr(parts) => {
            r.enter(id, "HexLiteral");
            for p in parts {
                r.t(p);
            }
            r.leave();
        }
        E::AddrLit(a) => {
            r.enter(id, "AddressLiteral");
            r.t(a);
            r.leave();
        }
        E::Bool(b) => {
            r.enter(id, "BoolLiteral");
            r.t(if *b { "true" } else { "false" });
            r.leave();
        }
        E::This => {
            r.enter(id, "This");
            r.t("this");
            r.leave();
        }
        E::Bin(op, a, b) => {
            r.enter(id, op.kind());
            r_expr(r, a);
            r.t(op.sym());
            r_expr(r, b);
            r.leave();
        }
        E::Un(op, a) => {
            r.enter(id, op.kind());
            r.t(op.sym());
            r_expr(r, a);
            r.leave();
        }
        E::PostInc(a) => {
            r.enter(id, "PostIncrement");
            r_expr(r, a);
            r.t("++");
            r.leave();
        }
        E::PostDec(a) => {
            r.enter(id, "PostDecrement");
            r_expr(r, a);
            r.t("--");
            r.leave();
        }
        E::Paren(a) => {
            let me = r.enter(id, "Parenthesis");
            r.t("(");
            r_expr(r, a);
            r.t(")");
            r.leave();
            let inner_loc = r.nodes[me + 1].loc_tok;
            r.nodes[me].loc_tok = inner_loc;
        }
        E::Ternary(c, a, b) => {
            r.enter(id, "Ternary");
            r_expr(r, c);
            r.t("?");
            r_expr(r, a);
            r.t(":");
            r_expr(r, b);
            r.leave();
        }
        E::Call(f, args) => {
            r.enter(id, "FunctionCall");
            r_expr(r, f);
            r.t("(");
            r_commas(r, args);
            r.t(")");
            r.leave();
        }
        E::NamedCall(f, args) => {
            r.enter(id, "NamedFunctionCall");
            r_expr(r, f);
            r.t("(");
            r.t("{");
            r_named(r, args);
            r.t("}");
            r.t(")");
            r.leave();
        }
        E::CallBlock(f, args, args_id) => {
            r.enter(id, "FunctionCallBlock");
            r_expr(r, f);
            r.enter(*args_id, "Args");
            r.t("{");
            r_named(r, args);
            r.t("}");
            r.leave();
            r.leave();
        }
        E::Member(a, m) => {
            r.enter(id, "MemberAccess");
            r_expr(r, a);
            r.t(".");
            r.t(m);
            r.leave();
        }
        E::Index(a, i) => {
            r.enter(id, "ArraySubscript");
            r_expr(r, a);
            r.t("[");
            if let Some(i) = i {
                r_expr(r, i);
            }
            r.t("]");
            r.leave();
        }
        E::Slice(a, l, h) => {
            r.enter(id, "ArraySlice");
            r_expr(r, a);
            r.t("[");
            if let Some(l) = l {
                r_expr(r, l);
            }
            r.t(":");
            if let Some(h) = h {
                r_expr(r, h);
            }
            r.t("]");
            r.leave();
        }
        E::ArrayLit(es) => {
            r.enter(id, "ArrayLiteral");
            r.t("[");
            r_commas(r, es);
            r.t("]");
            r.leave();
        }
        E::List(slots) => {
            r.enter(id, "List");
            r.t("(");
            for (i, s) in slots.iter().enumerate() {
                if i > 0 {
                    r.t(",");
                }
                if let Some(p) = s {
                    r_param(r, p);
                }
            }
            r.t(")");
            r.leave();
        }
        E::Type(t) => {
            r.enter(id, "Type");
            for w in t.split(' ') {
                r.t(w);
            }
            r.leave();
        }
        E::Mapping(k, v) => {
            r.enter(id, "Type");
            r.t("mapping");
            r.t("(");
            r_expr(r, k);
            r.t("=>");
            r_expr(r, v);
            r.t(")");
            r.leave();
        }
        E::FnType { params, attrs, returns } => {
            r.enter(id, "Type");
            r.t("function");
            r_params(r, params);
            for a in attrs {
                r.t(a);
            }
            if let Some(rs) = returns {
                r.t("returns");
                r_params(r, rs);
            }
            r.leave();
        }
        E::Unit(a, u) => {
            r.enter(id, "Unit");
            r_expr(r, a);
            r.t(u);
            r.leave();
        }
    }
}

// ---------------------------------------------------------------- precedence repair

/// grammar level at which the expression is produced (0 = primary/postfix, 2 = prefix, 3..14 binary)
pub fn level(e: &E) -> u8 {
    match e {
        E::Bin(op, _, _) => op.level(),
        E::Ternary(..) => 14,
        E::Un(..) => 2,
        E::FnType { .. } => 1, // FunctionTyPrecedence0: allowed wherever Precedence0 is, except as callee / before attrs
        _ => 0,
    }
}

pub struct IdGen(pub Id);
impl IdGen {
    pub fn next(&mut self) -> Id {
        self.0 += 1;
        self.0
    }
}

fn wrap(ex: &mut Ex, ids: &mut IdGen) {
    let inner = std::mem::replace(ex, Ex { id: 0, e: E::This });
    *ex = Ex { id: ids.next(), e: E::Paren(Box::new(inner)) };
}

fn need(ex: &mut Ex, max_level: u8, ids: &mut IdGen) {
    fix_parens(ex, ids);
    let l = level(&ex.e);
    let l = if l == 1 { 0 } else { l };
    if l > max_level {
        wrap(ex, ids);
    }
}

/// like need(0) but also refuses function types (callee / postfix base position)
fn need_postfix_base(ex: &mut Ex, ids: &mut IdGen) {
    fix_parens(ex, ids);
    if level(&ex.e) > 0 {
        wrap(ex, ids);
    }
}

/// Insert Parenthesis nodes wherever the grammar would otherwise regroup the tree.
pub fn fix_parens(ex: &mut Ex, ids: &mut IdGen) {
    match &mut ex.e {
        E::Bin(op, a, b) => {
            let (la, lb) = op.operand_levels();
            need(a, la, ids);
            need(b, lb, ids);
        }
        E::Ternary(c, a, b) => {
            need(c, 13, ids);
            need(a, 14, ids);
            need(b, 14, ids);
        }
        E::Un(_, a) => need(a, 2, ids),
        E::PostInc(a) | E::PostDec(a) | E::Member(a, _) | E::Unit(a, _) => need_postfix_base(a, ids),
        E::Paren(a) => need(a, 14, ids),
        E::Call(f, args) => {
            need_postfix_base(f, ids);
            for a in args {
                need(a, 14, ids);
            }
        }
        E::NamedCall(f, args) | E::CallBlock(f, args, _) => {
            need_postfix_base(f, ids);
            for (_, a) in args {
                need(a, 14, ids);
            }
        }
        E::Index(a, i) => {
            need_postfix_base(a, ids);
            if let Some(i) = i {
                need(i, 14, ids);
            }
        }
        E::Slice(a, l, h) => {
            need_postfix_base(a, ids);
            if let Some(l) = l {
                need(l, 14, ids);
            }
            if let Some(h) = h {
                need(h, 14, ids);
            }
        }
        E::ArrayLit(es) => {
            for e in es {
                need(e, 14, ids);
            }
        }
        E::List(slots) => {
            for s in slots.iter_mut().flatten() {
                need(&mut s.ty, 14, ids);
            }
        }
        E::Mapping(k, v) => {
            need(k, 0, ids);
            need(v, 0, ids);
        }
        E::FnType { params, returns, .. } => {
            for p in params.iter_mut() {
                need(&mut p.ty, 14, ids);
            }
            if let Some(rs) = returns {
                for p in rs.iter_mut() {
                    need(&mut p.ty, 14, ids);
                }
            }
        }
        _ => {}
    }
}
