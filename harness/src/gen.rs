//! Random program builder over the G-AST.  Every random choice comes from the case's PRNG.
use crate::common::{CRng, Rng};
use crate::gast::*;

#[derive(Clone)]
pub struct Cfg {
    pub max_depth: usize,
    pub max_stmts: usize,
    pub max_parts: usize,
    pub max_items: usize,
    pub assembly: bool,
    /// Some(v) => exactly one `pragma solidity <v>;` first; None => random pragma situation (hostile)
    pub pragma: Option<String>,
    pub free_functions: bool,
    /// allow exotic literal forms (huge numbers, exponents, rationals, hex strings, address literals)
    pub exotic_literals: bool,
    /// allow calls without arguments of well-known names, etc.
    pub hostile: bool,
    /// attach `using SafeMath for uint256;`
    pub safemath: bool,
    /// local variables may take the name of a state variable declared anywhere in the file
    pub shadow: bool,
}

impl Cfg {
    pub fn normal() -> Cfg {
        Cfg {
            max_depth: 4, max_stmts: 6, max_parts: 8, max_items: 4, assembly: true, pragma: Some("0.8.17".into()),
            free_functions: true, exotic_literals: true, hostile: false, safemath: false, shadow: false,
        }
    }
    pub fn hostile() -> Cfg {
        Cfg { hostile: true, pragma: None, ..Cfg::normal() }
    }
}

pub struct Builder {
    pub rng: CRng,
    pub ids: IdGen,
    pub cfg: Cfg,
    n: usize,
    state_vars: Vec<String>,
    locals: Vec<String>,
    arrays: Vec<String>,
    fn_names: Vec<String>,
    contract_names: Vec<String>,
    in_loop: bool,
    all_state_vars: Vec<String>,
    /// state variables and constants whose initialiser is a power of two written as `2 ** k`, `1 << k` or a literal
    pow2_named: Vec<String>,
}

const ELEM_TYPES: [&str; 16] = [
    "uint256", "uint8", "uint128", "int256", "int64", "bool", "address", "address payable", "bytes32", "bytes4", "bytes1", "uint",
    "string", "bytes", "uint64", "uint16",
];
const VALUE_TYPES: [&str; 12] =
    ["uint256", "uint8", "uint128", "int256", "int64", "bool", "address", "bytes32", "bytes4", "uint", "uint64", "address payable"];

impl Builder {
    pub fn new(rng: &Rng, cfg: Cfg) -> Builder {
        Builder { rng: Rng::from_seed(rng.next()), ids: IdGen(0), cfg, n: 0, state_vars: vec![], locals: vec![], arrays: vec![], fn_names: vec![], contract_names: vec![], in_loop: false, all_state_vars: vec![], pow2_named: vec![] }
    }
    fn id(&mut self) -> Id {
        self.ids.next()
    }
    fn local_name(&mut self) -> String {
        if self.cfg.shadow && !self.all_state_vars.is_empty() && self.rng.chance(1, 5) {
            self.rng.pick(&self.all_state_vars).clone()
        } else {
            self.fresh("lv")
        }
    }
    pub fn fresh(&mut self, prefix: &str) -> String {
        self.n += 1;
        format!("{}{}", prefix, self.n)
    }
    pub fn ex(&mut self, e: E) -> Ex {
        Ex { id: self.id(), e }
    }
    pub fn st(&mut self, s: S) -> St {
        St { id: self.id(), s }
    }
    pub fn var(&mut self, n: &str) -> Ex {
        self.ex(E::Var(n.to_string()))
    }
    pub fn num(&mut self, n: &str) -> Ex {
        self.ex(E::Num(n.to_string(), String::new()))
    }
    pub fn bin(&mut self, op: BinOp, a: Ex, b: Ex) -> Ex {
        self.ex(E::Bin(op, Box::new(a), Box::new(b)))
    }
    pub fn call(&mut self, f: Ex, args: Vec<Ex>) -> Ex {
        self.ex(E::Call(Box::new(f), args))
    }
    pub fn member(&mut self, a: Ex, m: &str) -> Ex {
        self.ex(E::Member(Box::new(a), m.to_string()))
    }
    pub fn ty(&mut self, t: &str) -> Ex {
        self.ex(E::Type(t.to_string()))
    }
    pub fn msg_sender(&mut self) -> Ex {
        let m = self.var("msg");
        self.member(m, "sender")
    }
    pub fn cast(&mut self, t: &str, a: Ex) -> Ex {
        let f = self.ty(t);
        self.call(f, vec![a])
    }
    /// finish an expression for a slot that accepts a full Expression
    pub fn fin(&mut self, mut e: Ex) -> Ex {
        fix_parens(&mut e, &mut self.ids);
        e
    }
    /// finish an expression for a type slot (Precedence0)
    pub fn fin0(&mut self, mut e: Ex) -> Ex {
        fix_parens(&mut e, &mut self.ids);
        if level(&e.e) > 1 {
            e = Ex { id: self.ids.next(), e: E::Paren(Box::new(e)) };
        }
        e
    }

    // ------------------------------------------------------------ types

    pub fn type_expr(&mut self, depth: usize) -> Ex {
        let k = self.rng.below(20);
        let e = match k {
            0..=11 => E::Type(self.rng.pick(&ELEM_TYPES).to_string()),
            12 if depth > 0 => {
                let kt = self.rng.ps(&["address", "uint256", "bytes32", "uint8"]);
                let k = self.ty(kt);
                let v = self.type_expr(depth - 1);
                E::Mapping(Box::new(k), Box::new(v))
            }
            13 | 14 if depth > 0 => {
                let base = self.type_expr(depth - 1);
                let base = if level(&base.e) > 0 { self.ex(E::Paren(Box::new(base))) } else { base };
                let dim = if self.rng.chance(1, 2) { None } else { Some(Box::new(self.small_expr(1))) };
                E::Index(Box::new(base), dim)
            }
            15 => E::Var(self.rng.ps(&["MyStruct", "IERC20", "Kind"]).to_string()),
            16 => {
                let l = self.var("Lib");
                E::Member(Box::new(l), "Thing".into())
            }
            17 if depth > 0 => {
                let params = self.params(self.rng.below(3), false, depth - 1);
                let attrs: Vec<&'static str> = match self.rng.below(4) {
                    0 => vec![],
                    1 => vec!["external"],
                    2 => vec!["internal", "view"],
                    _ => vec!["external", "payable"],
                };
                let returns = if self.rng.chance(1, 2) { Some(self.params(self.rng.range(1, 2), false, depth - 1)) } else { None };
                E::FnType { params, attrs, returns }
            }
            _ => E::Type("uint256".into()),
        };
        self.ex(e)
    }

    pub fn params(&mut self, n: usize, named: bool, depth: usize) -> Vec<Param> {
        (0..n)
            .map(|_| {
                let ty = self.type_expr(depth);
                let is_ref = matches!(&ty.e, E::Type(t) if t == "string" || t == "bytes") || matches!(&ty.e, E::Index(..) | E::Var(_));
                let storage = if is_ref { Some(self.rng.ps(&["memory", "calldata", "storage", "memory"])) } else { None };
                let name = if named || self.rng.chance(2, 3) { Some(self.fresh("p")) } else { None };
                let ty = self.fin(ty);
                Param { ty, storage, name }
            })
            .collect()
    }

    // ------------------------------------------------------------ expressions

    fn name_in_scope(&mut self) -> String {
        let total = self.state_vars.len() + self.locals.len();
        if total == 0 || self.rng.chance(1, 6) {
            return self.rng.ps(&["x", "y", "amount", "owner_", "idx", "flag", "data"]).to_string();
        }
        let i = self.rng.below(total);
        if i < self.state_vars.len() {
            self.state_vars[i].clone()
        } else {
            self.locals[i - self.state_vars.len()].clone()
        }
    }

    pub fn literal(&mut self) -> Ex {
        let exotic = self.cfg.exotic_literals;
        let k = self.rng.below(if exotic { 24 } else { 10 });
        let e = match k {
            0..=3 => E::Num(self.rng.ps(&["0", "1", "2", "3", "4", "7", "8", "10", "16", "100", "256", "1000", "1024", "32"]).to_string(), String::new()),
            4 => E::Bool(self.rng.chance(1, 2)),
            5 => E::Str(vec![self.rng.ps(&["\"ok\"", "'single'", "\"x++; require(a && b)\"", "\"this string is exactly thirty-two b\"", "\"a much longer revert reason string, well over thirty-two bytes\""]).to_string()]),
            6 => E::HexNum(self.rng.ps(&["0x0", "0x10", "0xdeadBEEF", "0x0000000000000000000000000000000000000000"]).to_string()),
            7 => E::Num(self.rng.ps(&["1_000", "1_024", "65536", "4294967296", "18446744073709551616"]).to_string(), String::new()),
            8 => E::Num(self.rng.ps(&["1", "2", "5", "10"]).to_string(), self.rng.ps(&["18", "3", "0", "77", "2"]).to_string()),
            9 => E::This,
            10 => E::Rational(self.rng.ps(&["0", "1", "12"]).to_string(), self.rng.ps(&["5", "25", "001"]).to_string(), self.rng.ps(&["", "", "2", "-1"]).to_string()),
            11 => E::Num("1".into(), self.rng.ps(&["-3", "-18"]).to_string()),
            12 => E::Num("115792089237316195423570985008687907853269984665640564039457584007913129639935".into(), String::new()),
            13 => E::Num("57896044618658097711785492504343953926634992332820282019728792003956564819968".into(), String::new()),
            14 => E::HexStr(vec![self.rng.ps(&["hex\"00ff\"", "hex'dead_beef'", "hex\"\""]).to_string()]),
            15 => E::Str(vec!["unicode\"héllo 合约\"".into()]),
            16 => E::Str(vec!["\"part one \"".into(), "\"part two\"".into()]),
            17 => E::HexStr(vec!["hex\"00\"".into(), "hex\"11\"".into()]),
            18 => E::AddrLit("address\"5GBWmgdFAMqm8ZgAHGobqDqX6tjLxJhv53ygjNtaaAn3sjeZ\"".into()),
            19 => E::Num(self.rng.ps(&["2147483648", "4294967295", "4294967297", "99999999999"]).to_string(), String::new()),
            20 => {
                let n = self.literal_num_small();
                E::Unit(Box::new(n), self.rng.ps(&["ether", "gwei", "wei", "days", "hours", "seconds", "minutes", "weeks"]))
            }
            21 => E::Str(vec!["\"\"".into()]),
            22 => E::Num("0".into(), "0".into()),
            _ => E::Num("128".into(), String::new()),
        };
        self.ex(e)
    }

    fn literal_num_small(&mut self) -> Ex {
        let n = self.rng.ps(&["1", "2", "7", "30"]).to_string();
        self.ex(E::Num(n, String::new()))
    }

    /// cheap expression without detector-relevant structure beyond leaves
    pub fn small_expr(&mut self, depth: usize) -> Ex {
        if depth == 0 || self.rng.chance(1, 2) {
            if self.rng.chance(1, 2) {
                let n = self.name_in_scope();
                self.var(&n)
            } else {
                self.literal()
            }
        } else {
            self.expr(depth - 1)
        }
    }

    fn lvalue(&mut self, depth: usize) -> Ex {
        match self.rng.below(10) {
            0..=5 => {
                let n = self.name_in_scope();
                self.var(&n)
            }
            6 | 7 => {
                let n = if !self.arrays.is_empty() && self.rng.chance(2, 3) { self.rng.pick(&self.arrays).clone() } else { self.name_in_scope() };
                let a = self.var(&n);
                let i = if self.rng.chance(1, 2) { self.num(self.rng.ps(&["0", "1", "2"])) } else { self.small_expr(depth) };
                self.ex(E::Index(Box::new(a), Some(Box::new(i))))
            }
            8 => {
                let n = self.name_in_scope();
                let a = self.var(&n);
                self.member(a, self.rng.ps(&["field", "balance", "length"]))
            }
            _ => {
                let n = self.name_in_scope();
                let a = self.var(&n);
                let i = self.small_expr(0);
                let ai = self.ex(E::Index(Box::new(a), Some(Box::new(i))));
                let j = self.small_expr(0);
                self.ex(E::Index(Box::new(ai), Some(Box::new(j))))
            }
        }
    }

    /// detector-relevant forms (canonical and near-miss), built from sub-expressions
    fn special(&mut self, depth: usize) -> Ex {
        let d = depth.saturating_sub(1);
        match self.rng.below(34) {
            0 => {
                // address(e).balance
                let inner = if self.rng.chance(1, 2) { self.ex(E::This) } else { self.small_expr(d) };
                let c = self.cast("address", inner);
                self.member(c, self.rng.ps(&["balance", "balance", "code", "codehash"]))
            }
            1 => {
                let a = self.small_expr(d);
                self.member(a, "balance")
            }
            2 | 3 => {
                // e ==/!= address(0) and near misses
                let z = self.rng.ps(&["0", "0", "0", "1", "0x0", "00"]).to_string();
                let zl = if z.starts_with("0x") { self.ex(E::HexNum(z)) } else { self.num(&z) };
                let az = self.cast(self.rng.ps(&["address", "address", "address", "payable", "uint160"]), zl);
                // the other operand: anything; now and then itself an address conversion (of something that is not zero)
                let other = if self.rng.chance(1, 5) {
                    let n = self.name_in_scope();
                    let v = self.var(&n);
                    self.cast(self.rng.ps(&["address", "payable", "address"]), v)
                } else {
                    self.small_expr(d)
                };
                let op = *self.rng.pick(&[BinOp::Eq, BinOp::Ne, BinOp::Eq, BinOp::Ne, BinOp::Lt, BinOp::Assign]);
                if self.rng.chance(1, 2) {
                    self.bin(op, other, az)
                } else if op == BinOp::Assign {
                    self.bin(op, other, az)
                } else {
                    self.bin(op, az, other)
                }
            }
            4 | 5 => {
                // bool comparisons
                let b = self.ex(E::Bool(self.rng.chance(1, 2)));
                let other = self.small_expr(d);
                let op = *self.rng.pick(&[BinOp::Eq, BinOp::Ne, BinOp::Eq, BinOp::And, BinOp::Or]);
                if self.rng.chance(1, 2) {
                    self.bin(op, other, b)
                } else {
                    self.bin(op, b, other)
                }
            }
            6 | 7 => {
                // a[k] = a[k] op e   and near misses
                let an = if !self.arrays.is_empty() { self.rng.pick(&self.arrays).clone() } else { "arr".to_string() };
                let bn = if self.rng.chance(1, 5) { "other".to_string() } else { an.clone() };
                let k = self.rng.ps(&["0", "1", "2", "10"]).to_string();
                let j = if self.rng.chance(1, 5) { "3".to_string() } else { k.clone() };
                // different arrays whose name and index, written one after the other, read the same: x1[0] and x[10]
                let (an, bn, k, j) = if self.rng.chance(1, 8) {
                    match self.rng.below(3) {
                        0 => (format!("{}1", an), an.clone(), "0".to_string(), "10".to_string()),
                        1 => (an.clone(), format!("{}1", an), "12".to_string(), "2".to_string()),
                        _ => (format!("{}2", an), format!("{}20", an), "10".to_string(), "1".to_string()),
                    }
                } else {
                    (an, bn, k, j)
                };
                let a1 = self.var(&an);
                let k1 = self.num(&k);
                let lhs = self.ex(E::Index(Box::new(a1), Some(Box::new(k1))));
                let a2 = self.var(&bn);
                let k2 = self.num(&j);
                let rl = self.ex(E::Index(Box::new(a2), Some(Box::new(k2))));
                let e = self.small_expr(d);
                let op = *self.rng.pick(&[BinOp::Add, BinOp::Sub, BinOp::Mul, BinOp::Div, BinOp::Mod, BinOp::Shl, BinOp::Shr, BinOp::BitAnd, BinOp::BitOr, BinOp::BitXor]);
                let rhs = if self.rng.chance(1, 6) { self.bin(op, e, rl) } else { self.bin(op, rl, e) };
                let aop = if self.rng.chance(1, 6) { BinOp::AssignAdd } else { BinOp::Assign };
                self.bin(aop, lhs, rhs)
            }
            8 => {
                let a = self.small_expr(d);
                self.member(a, "length")
            }
            9 | 10 => {
                // inc/dec
                let a = self.lvalue(d);
                match self.rng.below(4) {
                    0 => self.ex(E::PostInc(Box::new(a))),
                    1 => self.ex(E::PostDec(Box::new(a))),
                    2 => self.ex(E::Un(UnOp::PreInc, Box::new(a))),
                    _ => self.ex(E::Un(UnOp::PreDec, Box::new(a))),
                }
            }
            11 | 12 => {
                // require-like calls
                let callee = self.rng.ps(&["require", "require", "require", "assert", "revertIf"]).to_string();
                let c = self.var(&callee);
                let a = self.small_expr(d);
                let b = self.small_expr(d);
                let cond = match self.rng.below(4) {
                    0 => self.bin(BinOp::And, a, b),
                    1 => self.bin(BinOp::Or, a, b),
                    2 => {
                        let c2 = self.small_expr(d);
                        let ab = self.bin(BinOp::And, a, b);
                        self.bin(BinOp::And, ab, c2)
                    }
                    _ => a,
                };
                let mut args = vec![cond];
                if self.rng.chance(2, 3) {
                    let s = self.rng.ps(&[
                        "\"short\"", "'thirty-one bytes long string 01'", "\"thirty-two bytes long string  012\"", "\"thirty-three bytes long string 0123\"",
                        "\"a revert reason that is considerably longer than thirty-two bytes in total\"", "\"\"",
                        "unicode\"éééééééééééééééé\"", "unicode\"aaaaaaaaaaaaaaaaaaaaaaaaaaaaaaé\"", "unicode\"ééééééééééééééé\"", "\"ünïcödé in a plain literal, 32+ b\"",
                    ]).to_string();
                    if self.rng.chance(1, 6) {
                        // a message made of several adjacent literals
                        // (totals of 40, 31, 32, 33 and 20 bytes: on both sides of the 32-byte threshold)
                        let parts: Vec<String> = match self.rng.below(5) {
                            0 => vec!["\"too\"".into(), "\"small, really: well under thirty-two\"".into()],
                            1 => vec!["\"fifteen bytes..\"".into(), "\"sixteen bytes...\"".into()],
                            2 => vec!["\"sixteen bytes...\"".into(), "'sixteen bytes...'".into()],
                            3 => vec!["\"sixteen bytes...\"".into(), "\"seventeen bytes..\"".into()],
                            _ => vec!["\"ten bytes.\"".into(), "\"five.\"".into(), "\"five.\"".into()],
                        };
                        args.push(self.ex(E::Str(parts)));
                    } else {
                        args.push(self.ex(E::Str(vec![s])));
                    }
                }
                self.call(c, args)
            }
            13 | 14 => {
                let a = self.small_expr(d);
                let b = self.small_expr(d);
                let op = *self.rng.pick(&CMP_BIN);
                self.bin(op, a, b)
            }
            15 | 16 | 17 => {
                // shift_math forms
                let l = self.rng.ps(&["2", "4", "8", "16", "1024", "1_024", "3", "6", "10", "0", "1", "4294967296", "1000000000000000000", "9223372036854775808"]).to_string();
                let lit = if self.rng.chance(1, 8) {
                    self.ex(E::Num("1".into(), "18".into()))
                } else if self.rng.chance(1, 4) {
                    // 2^k for a random k in 1..=255 (and its neighbour 2^k + 1 as a near miss)
                    let k = self.rng.range(1, 255);
                    let mut d: Vec<u8> = vec![1];
                    for _ in 0..k {
                        let mut carry = 0;
                        for x in d.iter_mut() {
                            let v = *x * 2 + carry;
                            *x = v % 10;
                            carry = v / 10;
                        }
                        if carry > 0 {
                            d.push(carry);
                        }
                    }
                    if self.rng.chance(1, 5) {
                        d[0] += 1; // 2^k is even for k >= 1, so no carry
                    }
                    let s: String = d.iter().rev().map(|x| (b'0' + x) as char).collect();
                    self.num(&s)
                } else {
                    self.num(&l)
                };
                // now and then the operand is not a literal at all but the NAME of a power-of-two constant declared in the file
                let lit = if !self.pow2_named.is_empty() && self.rng.chance(1, 4) {
                    let n = self.rng.pick(&self.pow2_named).clone();
                    self.var(&n)
                } else {
                    lit
                };
                let e = self.small_expr(d);
                let op = *self.rng.pick(&[BinOp::Mul, BinOp::Div, BinOp::Mul, BinOp::Div, BinOp::Add, BinOp::Mod, BinOp::Pow, BinOp::Shl]);
                if self.rng.chance(1, 3) && op == BinOp::Mul {
                    self.bin(op, lit, e)
                } else {
                    self.bin(op, e, lit)
                }
            }
            18 => {
                let callee = self.rng.ps(&["keccak256", "keccak256", "sha256", "ripemd160", "keccak"]).to_string();
                let c = self.var(&callee);
                let inner = if self.rng.chance(1, 2) {
                    let abi = self.var("abi");
                    let f = self.member(abi, self.rng.ps(&["encodePacked", "encode"]));
                    let a = self.small_expr(d);
                    let b = self.small_expr(d);
                    self.call(f, vec![a, b])
                } else {
                    self.small_expr(d)
                };
                self.call(c, vec![inner])
            }
            19 | 20 => {
                let a = self.small_expr(d);
                let b = self.small_expr(d);
                let op = *self.rng.pick(&ARITH_BIN);
                self.bin(op, a, b)
            }
            21 | 22 => {
                // erc20-ish member calls
                let recv = match self.rng.below(4) {
                    0 => self.var("token"),
                    1 => {
                        let t = self.var("token_");
                        let c = self.var("IERC20");
                        self.call(c, vec![t])
                    }
                    2 => self.ex(E::This),
                    _ => self.small_expr(d),
                };
                let m = self.rng.ps(&["transfer", "transferFrom", "approve", "safeTransfer", "safeTransferFrom", "safeApprove", "transferOwnership", "transfers", "approved", "Transfer", "balanceOf"]).to_string();
                let f = self.member(recv, &m);
                if self.rng.chance(5, 6) {
                    let a = self.small_expr(d);
                    let b = self.small_expr(d);
                    self.call(f, vec![a, b])
                } else {
                    f
                }
            }
            23 | 24 => {
                // divide/multiply chains
                let mut e = self.small_expr(0);
                for _ in 0..self.rng.range(1, 4) {
                    let r = self.small_expr(0);
                    let op = *self.rng.pick(&[BinOp::Mul, BinOp::Div, BinOp::Mul, BinOp::Div, BinOp::Add, BinOp::Mod]);
                    if self.rng.chance(1, 4) {
                        e = self.ex(E::Paren(Box::new(e)));
                    }
                    e = if self.rng.chance(1, 5) { self.bin(op, r, e) } else { self.bin(op, e, r) };
                }
                if self.rng.chance(1, 4) {
                    let l = self.lvalue(0);
                    let op = *self.rng.pick(&[BinOp::AssignDiv, BinOp::AssignMul, BinOp::AssignDiv]);
                    self.bin(op, l, e)
                } else {
                    e
                }
            }
            25 | 26 => {
                // SafeMath-like member calls
                let x = self.small_expr(d);
                let m = self.rng.ps(&["add", "sub", "mul", "div", "mod", "addr", "subtract", "mulDiv", "divide"]).to_string();
                let f = self.member(x, &m);
                let a = self.small_expr(d);
                self.call(f, vec![a])
            }
            27 | 28 | 29 => {
                // writes
                let l = self.lvalue(d);
                let r = self.small_expr(d);
                let op = *self.rng.pick(&ASSIGN_BIN);
                self.bin(op, l, r)
            }
            30 => {
                let a = self.small_expr(d);
                let s = self.msg_sender();
                let op = *self.rng.pick(&[BinOp::Eq, BinOp::Ne]);
                if self.rng.chance(1, 2) {
                    self.bin(op, s, a)
                } else {
                    self.bin(op, a, s)
                }
            }
            31 => self.msg_sender(),
            32 => {
                let s = self.msg_sender();
                self.cast(self.rng.ps(&["payable", "address"]), s)
            }
            _ => {
                let a = self.small_expr(d);
                let b = self.small_expr(d);
                self.bin(BinOp::Pow, a, b)
            }
        }
    }

    pub fn expr(&mut self, depth: usize) -> Ex {
        if depth == 0 {
            return self.small_expr(0);
        }
        if self.rng.chance(2, 5) {
            return self.special(depth);
        }
        let d = depth - 1;
        match self.rng.below(30) {
            0..=3 => self.small_expr(0),
            4..=7 => {
                let a = self.expr(d);
                let b = self.expr(d);
                let op = match self.rng.below(4) {
                    0 => *self.rng.pick(&ARITH_BIN),
                    1 => *self.rng.pick(&CMP_BIN),
                    2 => *self.rng.pick(&[BinOp::And, BinOp::Or]),
                    _ => *self.rng.pick(&ARITH_BIN),
                };
                self.bin(op, a, b)
            }
            8 => {
                let l = self.lvalue(d);
                let r = self.expr(d);
                let op = *self.rng.pick(&ASSIGN_BIN);
                self.bin(op, l, r)
            }
            9 | 10 => {
                let a = self.expr(d);
                let op = *self.rng.pick(&[UnOp::Not, UnOp::Complement, UnOp::Minus, UnOp::Plus, UnOp::Delete, UnOp::PreInc, UnOp::PreDec, UnOp::Minus]);
                self.ex(E::Un(op, Box::new(a)))
            }
            11 => {
                let a = self.expr(d);
                if self.rng.chance(1, 2) {
                    self.ex(E::PostInc(Box::new(a)))
                } else {
                    self.ex(E::PostDec(Box::new(a)))
                }
            }
            12 | 13 => {
                let a = self.expr(d);
                self.ex(E::Paren(Box::new(a)))
            }
            14 => {
                let c = self.expr(d);
                let a = self.expr(d);
                let b = self.expr(d);
                self.ex(E::Ternary(Box::new(c), Box::new(a), Box::new(b)))
            }
            15 | 16 | 17 => {
                let fname = if !self.fn_names.is_empty() && self.rng.chance(1, 2) { self.rng.pick(&self.fn_names).clone() } else { self.rng.ps(&["helper", "compute", "min", "_check", "log"]).to_string() };
                let f = self.var(&fname);
                let n = self.rng.below(4);
                let args: Vec<Ex> = (0..n).map(|_| self.expr(d)).collect();
                self.call(f, args)
            }
            18 => {
                let f = self.var(self.rng.ps(&["helper", "Point", "build"]));
                let n = self.rng.range(1, 3);
                let args: Vec<(String, Ex)> = (0..n).map(|i| (format!("arg{}", i), self.expr(d))).collect();
                self.ex(E::NamedCall(Box::new(f), args))
            }
            19 => {
                let t = self.var("target");
                let f = self.member(t, self.rng.ps(&["call", "pay", "ping"]));
                let n = self.rng.range(1, 2);
                let opts: Vec<(String, Ex)> = (0..n).map(|i| ((if i == 0 { "value" } else { "gas" }).to_string(), self.expr(d))).collect();
                let aid = self.id();
                let cb = self.ex(E::CallBlock(Box::new(f), opts, aid));
                let arg = self.expr(d);
                self.call(cb, vec![arg])
            }
            20 => {
                let a = self.expr(d);
                self.member(a, self.rng.ps(&["length", "balance", "field", "selector", "transfer", "push"]))
            }
            21 | 22 => {
                let a = self.expr(d);
                let i = self.expr(d);
                self.ex(E::Index(Box::new(a), Some(Box::new(i))))
            }
            23 => {
                let a = self.var(self.rng.ps(&["data", "payload"]));
                let l = if self.rng.chance(2, 3) { Some(Box::new(self.expr(d))) } else { None };
                let h = if self.rng.chance(2, 3) { Some(Box::new(self.expr(d))) } else { None };
                self.ex(E::Slice(Box::new(a), l, h))
            }
            24 => {
                let n = self.rng.range(1, 3);
                let es: Vec<Ex> = (0..n).map(|_| self.expr(d)).collect();
                self.ex(E::ArrayLit(es))
            }
            25 => {
                // tuple
                let n = self.rng.range(2, 3);
                let slots: Vec<Option<Param>> = (0..n)
                    .map(|_| if self.rng.chance(1, 5) { None } else { Some(Param { ty: self.expr(d), storage: None, name: None }) })
                    .collect();
                self.ex(E::List(slots))
            }
            26 => {
                let t = self.rng.pick(&VALUE_TYPES).to_string();
                let a = self.expr(d);
                self.cast(&t, a)
            }
            27 => {
                let c = self.var(self.rng.ps(&["Child", "Token"]));
                let n = self.rng.below(3);
                let args: Vec<Ex> = (0..n).map(|_| self.expr(d)).collect();
                let call = self.call(c, args);
                self.ex(E::Un(UnOp::New, Box::new(call)))
            }
            28 => {
                // new uint[](n)
                let base = self.ty("uint256");
                let arr = self.ex(E::Index(Box::new(base), None));
                let nw = self.ex(E::Un(UnOp::New, Box::new(arr)));
                let n = self.expr(d);
                self.call(nw, vec![n])
            }
            _ => {
                // type(X).max
                let t = self.var("type");
                let x = self.ty(self.rng.ps(&["uint256", "int128"]));
                let c = self.call(t, vec![x]);
                self.member(c, self.rng.ps(&["max", "min"]))
            }
        }
    }

    // ------------------------------------------------------------ statements

    fn body(&mut self, depth: usize) -> St {
        // a statement usable as loop/if body without dangling-else trouble
        if self.rng.chance(3, 4) {
            self.block(depth, false)
        } else {
            let e = self.expr(depth.min(2));
            let e = self.fin(e);
            self.st(S::Expr(e))
        }
    }

    pub fn block(&mut self, depth: usize, unchecked: bool) -> St {
        let n = self.rng.below(self.cfg.max_stmts.min(2 + depth * 2) + 1);
        let saved = self.locals.len();
        let stmts: Vec<St> = (0..n).map(|_| self.stmt(depth)).collect();
        self.locals.truncate(saved);
        self.st(S::Block { unchecked, stmts })
    }

    fn simple_init(&mut self, depth: usize) -> St {
        if self.rng.chance(2, 3) {
            let name = self.local_name();
            let ty = self.ty(self.rng.ps(&["uint256", "uint8", "uint"]));
            let init = if self.rng.chance(3, 4) { Some(self.small_expr(depth)) } else { None };
            let init = init.map(|e| self.fin(e));
            self.locals.push(name.clone());
            self.st(S::VarDef { ty, storage: None, name, init })
        } else {
            let e = self.expr(depth.min(1));
            let e = self.fin(e);
            self.st(S::Expr(e))
        }
    }

    pub fn stmt(&mut self, depth: usize) -> St {
        let d = depth.saturating_sub(1);
        let ed = depth.min(3);
        let k = if depth == 0 { self.rng.below(8) } else { self.rng.below(30) };
        match k {
            0..=4 => {
                let e = self.expr(ed);
                let e = self.fin(e);
                self.st(S::Expr(e))
            }
            5 | 6 => {
                let name = self.local_name();
                let ty = self.type_expr(1);
                let ty = self.fin0(ty);
                let is_ref = matches!(&ty.e, E::Type(t) if t == "string" || t == "bytes") || matches!(&ty.e, E::Index(..) | E::Var(_));
                let storage = if is_ref { Some(self.rng.ps(&["memory", "storage", "calldata"])) } else { None };
                let init = if self.rng.chance(3, 4) { Some(self.expr(ed)) } else { None };
                let init = init.map(|e| self.fin(e));
                self.locals.push(name.clone());
                self.st(S::VarDef { ty, storage, name, init })
            }
            7 => {
                let e = if self.rng.chance(3, 4) { Some(self.expr(ed)) } else { None };
                let e = e.map(|e| self.fin(e));
                self.st(S::Return(e))
            }
            8 | 9 => {
                let c = self.expr(ed);
                let c = self.fin(c);
                let a = self.block(d, false);
                let b = match self.rng.below(4) {
                    0 => None,
                    1 => Some(Box::new(self.block(d, false))),
                    2 => {
                        // else if chain
                        let c2 = self.expr(ed);
                        let c2 = self.fin(c2);
                        let a2 = self.block(d, false);
                        let b2 = if self.rng.chance(1, 2) { Some(Box::new(self.block(d, false))) } else { None };
                        Some(Box::new(self.st(S::If(c2, Box::new(a2), b2))))
                    }
                    _ => None,
                };
                self.st(S::If(c, Box::new(a), b))
            }
            10 | 11 | 12 => {
                let saved = self.locals.len();
                let init = if self.rng.chance(4, 5) { Some(Box::new(self.simple_init(1))) } else { None };
                let cond = if self.rng.chance(5, 6) {
                    // bias towards `.length` conditions
                    let c = if self.rng.chance(1, 2) {
                        let i = self.name_in_scope();
                        let iv = self.var(&i);
                        let arr = self.small_expr(1);
                        let len = self.member(arr, self.rng.ps(&["length", "length", "len", "size"]));
                        let op = *self.rng.pick(&[BinOp::Lt, BinOp::Le, BinOp::Gt, BinOp::Ne]);
                        if self.rng.chance(1, 4) {
                            self.bin(op, len, iv)
                        } else {
                            self.bin(op, iv, len)
                        }
                    } else {
                        self.expr(ed)
                    };
                    Some(self.fin(c))
                } else {
                    None
                };
                let next = if self.rng.chance(4, 5) {
                    let e = self.special_incdec();
                    let e = self.fin(e);
                    Some(Box::new(self.st(S::Expr(e))))
                } else {
                    None
                };
                let was = self.in_loop;
                self.in_loop = true;
                let body = if self.rng.chance(9, 10) { Some(Box::new(self.body(d))) } else { None };
                self.in_loop = was;
                self.locals.truncate(saved);
                self.st(S::For { init, cond, next, body })
            }
            13 => {
                let c = self.expr(ed);
                let c = self.fin(c);
                let was = self.in_loop;
                self.in_loop = true;
                let b = self.body(d);
                self.in_loop = was;
                self.st(S::While(c, Box::new(b)))
            }
            14 => {
                let was = self.in_loop;
                self.in_loop = true;
                let b = self.block(d, false);
                self.in_loop = was;
                let c = self.expr(ed);
                let c = self.fin(c);
                self.st(S::DoWhile(Box::new(b), c))
            }
            15 | 16 => self.block(d, true),
            17 => self.block(d, false),
            18 => {
                let f = self.var(self.rng.ps(&["Transfer", "Logged", "Approval"]));
                let n = self.rng.below(4);
                let args: Vec<Ex> = (0..n).map(|_| self.expr(ed)).collect();
                let c = self.call(f, args);
                let c = self.fin(c);
                self.st(S::Emit(c))
            }
            19 => {
                let path = match self.rng.below(3) {
                    0 => None,
                    1 => Some("Unauthorized".to_string()),
                    _ => Some("Errors.Bad".to_string()),
                };
                let n = if path.is_none() { self.rng.below(2) } else { self.rng.below(3) };
                let args: Vec<Ex> = (0..n)
                    .map(|_| if path.is_none() { self.ex(E::Str(vec!["\"reverted for a reason\"".into()])) } else { self.expr(ed) })
                    .map(|e| e)
                    .collect();
                let args = args.into_iter().map(|e| self.fin(e)).collect();
                self.st(S::Revert(path, args))
            }
            20 => {
                let n = self.rng.range(1, 2);
                let args: Vec<(String, Ex)> = (0..n)
                    .map(|i| {
                        let e = self.expr(ed);
                        (format!("f{}", i), self.fin(e))
                    })
                    .collect();
                self.st(S::RevertNamed(Some("TooMuch".into()), args))
            }
            21 | 22 => {
                // try / catch
                let t = self.var("target");
                let f = self.member(t, self.rng.ps(&["ping", "transfer", "doIt"]));
                let n = self.rng.below(3);
                let args: Vec<Ex> = (0..n).map(|_| self.expr(ed)).collect();
                let mut call = self.call(f, args);
                let mut is_new = false;
                if self.rng.chance(1, 6) {
                    let c = self.var("Child");
                    let a = self.expr(ed);
                    let cc = self.call(c, vec![a]);
                    call = self.ex(E::Un(UnOp::New, Box::new(cc)));
                    is_new = true;
                }
                let call = self.fin(call);
                let returns = if !is_new && self.rng.chance(1, 3) {
                    // `try x.f() { .. } catch ..`: a success block without a `returns` clause (no parameters)
                    Some((vec![], Box::new(self.block(d, false))))
                } else if self.rng.chance(2, 3) {
                    let ps = self.params(self.rng.range(1, 2), true, 1);
                    for p in &ps {
                        if let Some(n) = &p.name {
                            self.locals.push(n.clone());
                        }
                    }
                    Some((ps, Box::new(self.block(d, false))))
                } else {
                    None
                };
                let mut catches = vec![];
                let nc = self.rng.range(1, 3);
                for i in 0..nc {
                    let b = self.block(d, false);
                    let c = match (i, self.rng.below(3)) {
                        (0, 0) if nc > 1 => {
                            let t = self.ty("string");
                            Catch::Named("Error".into(), Param { ty: t, storage: Some("memory"), name: Some(self.fresh("reason")) }, b)
                        }
                        (_, 1) => {
                            let t = self.ty("bytes");
                            Catch::Simple(Some(Param { ty: t, storage: Some("memory"), name: if self.rng.chance(1, 2) { Some(self.fresh("low")) } else { None } }), b)
                        }
                        (_, 2) if i + 1 < nc => {
                            let t = self.ty("uint256");
                            Catch::Named("Panic".into(), Param { ty: t, storage: None, name: Some(self.fresh("code")) }, b)
                        }
                        _ => Catch::Simple(None, b),
                    };
                    catches.push(c);
                }
                self.st(S::Try { expr: call, returns, catches })
            }
            23 if self.in_loop => {
                if self.rng.chance(1, 2) {
                    self.st(S::Break)
                } else {
                    self.st(S::Continue)
                }
            }
            24 if self.cfg.assembly => {
                let toks: Vec<String> = match self.rng.below(3) {
                    0 => "{ let t := add ( x , 1 ) mstore ( 0x40 , t ) }".split(' ').map(|s| s.to_string()).collect(),
                    1 => "\"evmasm\" { for { let i := 0 } lt ( i , 3 ) { i := add ( i , 1 ) } { sstore ( i , mul ( i , 2 ) ) } }".split(' ').map(|s| s.to_string()).collect(),
                    _ => "{ if iszero ( caller ( ) ) { revert ( 0 , 0 ) } switch x case 0 { x := 1 } default { selfdestruct ( caller ( ) ) } }".split(' ').map(|s| s.to_string()).collect(),
                };
                self.st(S::Assembly(toks))
            }
            25 => {
                // selfdestruct / suicide
                let callee = self.var(self.rng.ps(&["selfdestruct", "selfdestruct", "suicide"]));
                let arg = match self.rng.below(6) {
                    0 => self.msg_sender(),
                    1 => {
                        let s = self.msg_sender();
                        self.cast("payable", s)
                    }
                    2 => self.var("owner_"),
                    3 | 4 => {
                        // the sender only as operand of nested conversions through an integer / fixed-bytes type
                        let s = self.msg_sender();
                        let inner = self.rng.ps(&["uint160", "bytes20", "uint160", "uint256"]);
                        let c1 = self.cast(inner, s);
                        let c1 = if inner == "uint256" { c1 } else if self.rng.chance(1, 3) { self.cast("uint256", c1) } else { c1 };
                        let c2 = if inner == "bytes20" { self.cast("address", c1) } else { let u = self.cast("uint160", c1); self.cast("address", u) };
                        self.cast("payable", c2)
                    }
                    _ => {
                        let o = self.var("owner_");
                        self.cast("payable", o)
                    }
                };
                let c = self.call(callee, vec![arg]);
                self.st(S::Expr(c))
            }
            26 => {
                // destructuring with declarations
                let a = self.fresh("lv");
                let b = self.fresh("lv");
                let ta = self.ty("bool");
                let tb = self.ty("bytes");
                let slots = vec![
                    Some(Param { ty: ta, storage: None, name: Some(a.clone()) }),
                    if self.rng.chance(1, 3) { None } else { Some(Param { ty: tb, storage: Some("memory"), name: Some(b.clone()) }) },
                ];
                let l = self.ex(E::List(slots));
                let r = self.expr(ed);
                let e = self.bin(BinOp::Assign, l, r);
                let e = self.fin(e);
                self.locals.push(a);
                self.st(S::Expr(e))
            }
            _ => {
                let e = self.special(ed.max(1));
                let e = self.fin(e);
                self.st(S::Expr(e))
            }
        }
    }

    fn special_incdec(&mut self) -> Ex {
        let n = self.name_in_scope();
        let a = self.var(&n);
        match self.rng.below(6) {
            0 | 1 => self.ex(E::PostInc(Box::new(a))),
            2 => self.ex(E::Un(UnOp::PreInc, Box::new(a))),
            3 => self.ex(E::PostDec(Box::new(a))),
            4 => self.ex(E::Un(UnOp::PreDec, Box::new(a))),
            _ => {
                let one = self.num("1");
                self.bin(BinOp::AssignAdd, a, one)
            }
        }
    }

    // ------------------------------------------------------------ declarations

    pub fn func(&mut self, kind: FnKind, in_contract: bool, iface: bool) -> Func {
        let id = self.id();
        let saved_locals = self.locals.len();
        let name = match kind {
            FnKind::Function => {
                let n = if self.rng.chance(1, 6) {
                    // common names, deliberately repeated across contracts (and as overloads)
                    self.rng.ps(&["destroy", "kill", "withdraw", "initialize", "update", "_update", "sweep"]).to_string()
                } else if self.rng.chance(1, 4) {
                    if self.rng.chance(1, 4) { self.fresh("__fn") } else { self.fresh("_fn") }
                } else {
                    self.fresh("fn")
                };
                self.fn_names.push(n.clone());
                Some(n)
            }
            FnKind::Modifier => Some(if self.rng.chance(1, 4) {
                // names that functions of any contract in the file invoke
                self.rng.ps(&["nonReentrant", "whenNotPaused", "guarded", "lock", "auth", "onlyOwner", "ownerOnly", "onlyRole"]).to_string()
            } else if self.rng.chance(1, 2) {
                self.fresh("onlyRole")
            } else {
                self.fresh("md")
            }),
            _ => None,
        };
        let np = match kind {
            FnKind::Receive | FnKind::Fallback => 0,
            _ => self.rng.below(4),
        };
        let params = if kind == FnKind::Modifier && self.rng.chance(1, 3) { None } else { Some(self.params(np, kind != FnKind::Function || self.rng.chance(5, 6), 2)) };
        if let Some(ps) = &params {
            for p in ps {
                if let Some(n) = &p.name {
                    self.locals.push(n.clone());
                }
            }
        }
        let mut attrs: Vec<FAttr> = vec![];
        match kind {
            FnKind::Function => {
                if in_contract {
                    match self.rng.below(if iface { 1 } else { 9 }) {
                        0 | 1 => attrs.push(FAttr::Vis("external")),
                        2 | 3 | 4 => attrs.push(FAttr::Vis("public")),
                        5 => attrs.push(FAttr::Vis("internal")),
                        6 => attrs.push(FAttr::Vis("private")),
                        _ => {}
                    }
                } else if self.rng.chance(1, 6) {
                    attrs.push(FAttr::Vis("internal"));
                }
                match self.rng.below(6) {
                    0 => attrs.push(FAttr::Mut("view")),
                    1 => attrs.push(FAttr::Mut("pure")),
                    2 => attrs.push(FAttr::Mut("payable")),
                    _ => {}
                }
                if self.rng.chance(1, 6) {
                    attrs.push(FAttr::Virtual);
                }
                if self.rng.chance(1, 8) {
                    attrs.push(FAttr::Override(if self.rng.chance(1, 2) { vec![] } else { vec!["Base".into(), "Lib.Other".into()] }));
                }
            }
            FnKind::Constructor => {
                if self.rng.chance(1, 5) {
                    attrs.push(FAttr::Vis("public"));
                }
                if self.rng.chance(1, 5) {
                    attrs.push(FAttr::Mut("payable"));
                }
                if self.rng.chance(1, 3) {
                    let n = self.rng.below(3);
                    let args: Vec<Ex> = (0..n)
                        .map(|_| {
                            let e = self.expr(2);
                            self.fin(e)
                        })
                        .collect();
                    attrs.push(FAttr::Modifier("Base".into(), Some(args)));
                }
            }
            FnKind::Fallback | FnKind::Receive => {
                attrs.push(FAttr::Vis("external"));
                if kind == FnKind::Receive || self.rng.chance(1, 2) {
                    attrs.push(FAttr::Mut("payable"));
                }
            }
            FnKind::Modifier => {
                if self.rng.chance(1, 6) {
                    attrs.push(FAttr::Virtual);
                }
            }
        }
        if kind == FnKind::Function || kind == FnKind::Constructor || ((kind == FnKind::Fallback || kind == FnKind::Receive) && self.rng.chance(1, 2)) {
            // modifier invocations, with and without arguments
            for _ in 0..self.rng.below(3) {
                if self.rng.chance(1, 2) {
                    let mname = self.rng.ps(&["onlyOwner", "nonReentrant", "whenNotPaused", "onlyRole", "guarded", "lock", "ownerOnly", "auth"]).to_string();
                    let args = if self.rng.chance(1, 2) {
                        let n = self.rng.below(3);
                        Some(
                            (0..n)
                                .map(|_| {
                                    let e = self.expr(2);
                                    self.fin(e)
                                })
                                .collect(),
                        )
                    } else {
                        None
                    };
                    attrs.push(FAttr::Modifier(mname, args));
                }
            }
        }
        self.rng.shuffle(&mut attrs);
        let returns = if kind == FnKind::Function && self.rng.chance(1, 2) {
            let ps = self.params(self.rng.range(1, 2), self.rng.chance(1, 2), 1);
            for p in &ps {
                if let Some(n) = &p.name {
                    self.locals.push(n.clone());
                }
            }
            Some(ps)
        } else {
            None
        };
        let has_body = !iface && (kind != FnKind::Function || self.rng.chance(9, 10));
        let body = if has_body {
            let mut b = self.block(self.cfg.max_depth.min(3), false);
            if kind == FnKind::Modifier {
                if let S::Block { stmts, .. } = &mut b.s {
                    let u = Ex { id: self.ids.next(), e: E::Var("_".into()) };
                    let pos = self.rng.below(stmts.len() + 1);
                    stmts.insert(pos, St { id: self.ids.next(), s: S::Expr(u) });
                }
            }
            Some(b)
        } else {
            None
        };
        self.locals.truncate(saved_locals);
        Func { id, kind, name, params, attrs, returns, body }
    }

    pub fn state_var(&mut self, file_level: bool) -> VarDecl {
        let id = self.id();
        let ty = if file_level { self.ty(self.rng.ps(&["uint256", "address", "bytes32"])) } else { self.type_expr(2) };
        let ty = self.fin0(ty);
        let is_fn = matches!(ty.e, E::FnType { .. });
        let is_array = matches!(ty.e, E::Index(..));
        let mut attrs: Vec<&'static str> = vec![];
        if !is_fn {
            match self.rng.below(6) {
                0 | 1 => attrs.push("public"),
                2 => attrs.push("private"),
                3 => attrs.push("internal"),
                _ => {}
            }
            let elementary = matches!(&ty.e, E::Type(_));
            if file_level {
                attrs.push("constant");
            } else if elementary {
                match self.rng.below(7) {
                    0 => attrs.push("constant"),
                    1 => attrs.push("immutable"),
                    _ => {}
                }
            }
            self.rng.shuffle(&mut attrs);
        }
        // now and then `override` among the attributes (a getter that implements an interface function)
        if !is_fn && !file_level && self.rng.chance(1, 8) {
            let at = self.rng.below(attrs.len() + 1);
            attrs.insert(at, "override");
        }
        let underscore = self.rng.chance(1, 3);
        // `$` is a letter of identifiers: `_$slot`, `$slot`
        let name = match (underscore, self.rng.chance(1, 8)) {
            (true, false) => {
                if self.rng.chance(1, 5) {
                    self.fresh("__sv")
                } else {
                    self.fresh("_sv")
                }
            }
            (false, false) => self.fresh("sv"),
            (true, true) => self.fresh("_$sv"),
            (false, true) => self.fresh("$sv"),
        };
        let needs_init = attrs.contains(&"constant");
        let mut pow2_init = false;
        let init = if needs_init || (!is_fn && self.rng.chance(1, 3)) {
            let e = if self.rng.chance(1, 4) {
                // values only known at deployment
                match self.rng.below(6) {
                    0 => self.msg_sender(),
                    1 => {
                        let b0 = self.var("block");
                        self.member(b0, "timestamp")
                    }
                    2 => {
                        let t = self.ex(E::This);
                        self.cast("address", t)
                    }
                    3 => {
                        let c = self.var("Child");
                        let call = self.call(c, vec![]);
                        self.ex(E::Un(UnOp::New, Box::new(call)))
                    }
                    4 => {
                        let t = self.var("tx");
                        self.member(t, "origin")
                    }
                    _ => {
                        let m = self.var("msg");
                        self.member(m, "value")
                    }
                }
            } else if self.rng.chance(1, 4) {
                // named scaling factors: `Q96 = 2 ** 96`, `ONE = 1 << 64`, `WORD = 256`, `WAD = 10 ** 18`
                pow2_init = true;
                let k = self.rng.ps(&["1", "2", "8", "64", "96", "128", "255"]).to_string();
                match self.rng.below(5) {
                    0 | 1 => {
                        let a = self.num("2");
                        let b = self.num(&k);
                        self.bin(BinOp::Pow, a, b)
                    }
                    2 => {
                        let a = self.num("1");
                        let b = self.num(&k);
                        self.bin(BinOp::Shl, a, b)
                    }
                    3 => {
                        let l = self.rng.ps(&["2", "256", "1024", "4294967296", "65536"]).to_string();
                        self.num(&l)
                    }
                    _ => {
                        let a = self.num("10");
                        let b = self.num("18");
                        self.bin(BinOp::Pow, a, b)
                    }
                }
            } else {
                self.expr(2)
            };
            Some(self.fin(e))
        } else {
            None
        };
        self.state_vars.push(name.clone());
        self.all_state_vars.push(name.clone());
        if pow2_init {
            self.pow2_named.push(name.clone());
        }
        if is_array {
            self.arrays.push(name.clone());
        }
        VarDecl { id, ty, attrs, name, init }
    }

    pub fn struct_def(&mut self) -> StructDef {
        let id = self.id();
        let name = if self.rng.chance(1, 4) { "MyStruct".to_string() } else { self.fresh("St") };
        let n = self.rng.range(0, 6);
        let fields = (0..n)
            .map(|_| {
                let t = self.type_expr(1);
                let t = self.fin0(t);
                let nm = self.fresh("m");
                (t, None, nm)
            })
            .collect();
        StructDef { id, name, fields }
    }

    fn misc_part(&mut self) -> Part {
        match self.rng.below(7) {
            0 => Part::Struct(self.struct_def()),
            1 => {
                let id = self.id();
                let n = if self.rng.chance(1, 4) { "Kind".to_string() } else { self.fresh("En") };
                let k = self.rng.range(1, 4);
                Part::Enum(id, n, (0..k).map(|i| format!("V{}", i)).collect())
            }
            2 => {
                let id = self.id();
                let n = self.fresh("Ev");
                let k = self.rng.below(4);
                let fields = (0..k)
                    .map(|_| {
                        let t = self.type_expr(1);
                        let t = self.fin0(t);
                        let nm = if self.rng.chance(2, 3) { Some(self.fresh("e")) } else { None };
                        (t, self.rng.chance(1, 3), nm)
                    })
                    .collect();
                Part::Event(id, n, fields, self.rng.chance(1, 8))
            }
            3 => {
                let id = self.id();
                let n = self.fresh("Er");
                let k = self.rng.below(3);
                let fields = (0..k)
                    .map(|_| {
                        let t = self.type_expr(1);
                        let t = self.fin0(t);
                        let nm = if self.rng.chance(2, 3) { Some(self.fresh("e")) } else { None };
                        (t, nm)
                    })
                    .collect();
                Part::Error(id, n, fields)
            }
            4 => {
                let id = self.id();
                let braces = self.rng.chance(1, 3);
                let list = if braces { vec!["helperA".to_string(), "Lib.helperB".to_string()] } else { vec![self.rng.ps(&["MathLib", "Lib.Inner", "Address", "EnumerableSet", "EnumerableMap"]).to_string()] };
                let ty = if self.rng.chance(1, 5) {
                    None
                } else {
                    let t = self.type_expr(1);
                    Some(self.fin0(t))
                };
                Part::Using(id, list, braces, ty, false)
            }
            5 => {
                let id = self.id();
                let n = self.fresh("Ty");
                let t = self.ty(self.rng.ps(&["uint128", "address", "bytes4"]));
                Part::TypeDef(id, n, t)
            }
            _ => Part::Stray(self.id()),
        }
    }

    pub fn contract(&mut self) -> Contract {
        let id = self.id();
        let kind = self.rng.ps(&["contract", "contract", "contract", "abstract contract", "interface", "library"]);
        let iface = kind == "interface";
        let name = self.fresh("K");
        self.state_vars.clear();
        self.arrays.clear();
        let mut bases = vec![];
        if kind != "library" && self.rng.chance(1, 3) {
            for _ in 0..self.rng.range(1, 2) {
                let args = if self.rng.chance(1, 2) && !iface {
                    let n = self.rng.below(3);
                    Some(
                        (0..n)
                            .map(|_| {
                                let e = self.expr(2);
                                self.fin(e)
                            })
                            .collect(),
                    )
                } else {
                    None
                };
                let base_name = if !self.contract_names.is_empty() && self.rng.chance(1, 2) { self.rng.pick(&self.contract_names).clone() } else { self.rng.ps(&["Base", "Ownable", "Lib.Mixin"]).to_string() };
                bases.push((base_name, args));
            }
        }
        let mut parts = vec![];
        if self.cfg.safemath && !iface {
            let id = self.id();
            let t = self.ty("uint256");
            parts.push(Part::Using(id, vec!["SafeMath".into()], false, Some(t), false));
        }
        let n = self.rng.range(0, self.cfg.max_parts);
        // state variables first so that function bodies can mention them
        let nv = if iface { 0 } else { self.rng.below(n + 1).min(5) };
        let mut vars: Vec<Part> = (0..nv).map(|_| Part::Var(self.state_var(false))).collect();
        let mut others: Vec<Part> = vec![];
        let mut have_ctor = false;
        for _ in 0..(n - nv.min(n)) {
            let p = match self.rng.below(12) {
                0..=5 => Part::Func(self.func(FnKind::Function, true, iface)),
                6 if !iface && !have_ctor && kind != "library" => {
                    have_ctor = true;
                    Part::Func(self.func(FnKind::Constructor, true, false))
                }
                7 if !iface => Part::Func(self.func(FnKind::Modifier, true, false)),
                8 if !iface && kind != "library" => Part::Func(self.func(if self.rng.chance(1, 2) { FnKind::Fallback } else { FnKind::Receive }, true, false)),
                _ => self.misc_part(),
            };
            others.push(p);
        }
        // interleave: mostly vars first, sometimes mixed
        if self.rng.chance(1, 3) {
            vars.append(&mut others);
            self.rng.shuffle(&mut vars);
            parts.append(&mut vars);
        } else {
            parts.append(&mut vars);
            parts.append(&mut others);
        }
        if kind == "contract" || kind == "abstract contract" {
            self.contract_names.push(name.clone());
        }
        Contract { id, kind, name, bases, parts }
    }

    pub fn pragmas(&mut self) -> Vec<Item> {
        let mut v = vec![];
        match self.cfg.pragma.clone() {
            Some(val) => {
                let id = self.id();
                v.push(Item::Pragma(id, "solidity".into(), val.clone()));
            }
            None => {
                // hostile pragma situations
                match self.rng.below(8) {
                    0 => {}
                    1 => {
                        let id = self.id();
                        v.push(Item::Pragma(id, "experimental".into(), "ABIEncoderV2".into()));
                    }
                    2 => {
                        let id = self.id();
                        v.push(Item::Pragma(id, "abicoder".into(), "v2".into()));
                        let id = self.id();
                        v.push(Item::Pragma(id, "solidity".into(), "^0.8.0".into()));
                    }
                    3 => {
                        let id = self.id();
                        v.push(Item::Pragma(id, "solidity".into(), self.rng.ps(&["0.8", "8", ">=0.4.22 <0.9.0", "^0.8.123456789012", "0.8.4294967296", "*", "0.8.x"]).to_string()));
                    }
                    4 => {
                        let id = self.id();
                        v.push(Item::Pragma(id, "solidity".into(), "0.7.6".into()));
                        let id = self.id();
                        v.push(Item::Pragma(id, "solidity".into(), "0.8.19".into()));
                    }
                    _ => {
                        let id = self.id();
                        let val = format!("{}{}.{}.{}", self.rng.ps(&["", "^", ">=", "=", "~", "> "]), self.rng.below(2), self.rng.below(12), self.rng.below(30));
                        v.push(Item::Pragma(id, "solidity".into(), val));
                    }
                }
            }
        }
        v
    }

    pub fn file(&mut self) -> File {
        let mut items = self.pragmas();
        if self.rng.chance(1, 4) {
            let id = self.id();
            let toks: Vec<String> = match self.rng.below(3) {
                0 => vec!["\"./Dep.sol\"".into()],
                1 => vec!["\"./Dep.sol\"".into(), "as".into(), "Dep".into()],
                _ => vec!["{".into(), "A".into(), "as".into(), "B".into(), ",".into(), "C".into(), "}".into(), "from".into(), "'./Dep.sol'".into()],
            };
            items.push(Item::Import(id, toks));
        }
        let n = self.rng.range(1, self.cfg.max_items);
        for _ in 0..n {
            let it = match self.rng.below(10) {
                0..=5 => Item::Contract(self.contract()),
                6 if self.cfg.free_functions => {
                    self.state_vars.clear();
                    Item::Part(Part::Func(self.func(FnKind::Function, false, false)))
                }
                7 => Item::Part(Part::Var(self.state_var(true))),
                8 => Item::Part(self.misc_part()),
                _ => Item::Contract(self.contract()),
            };
            items.push(it);
        }
        // now and then the solidity pragma itself stands after the first definition (legal)
        if self.cfg.pragma.is_some() && self.rng.chance(1, 10) {
            if let Some(pos) = items.iter().position(|i| matches!(i, Item::Pragma(_, n, _) if n == "solidity")) {
                let pr = items.remove(pos);
                let at = self.rng.range(1.min(items.len()), items.len());
                items.insert(at, pr);
            }
        }
        // a late pragma now and then (placement of unrelated pragmas)
        if self.rng.chance(1, 8) {
            let id = self.id();
            items.push(Item::Pragma(id, "abicoder".into(), "v2".into()));
        }
        File { items }
    }
}
