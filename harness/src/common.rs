//! Shared machinery: PRNG, accumulators, worker pool, known findings, evidence writer.
use serde_json::{json, Map, Value};
use std::cell::RefCell;
use std::collections::{BTreeMap, BTreeSet, HashSet};
use std::sync::atomic::{AtomicU64, Ordering};
use std::sync::Mutex;
use std::time::Instant;

pub const VERIF_DIR: &str = "/verif";
pub const REPO_DIR: &str = "/repo";

// ---------------------------------------------------------------- PRNG

pub struct Rng(pub std::cell::Cell<u64>);

pub fn splitmix(mut z: u64) -> u64 {
    z = z.wrapping_add(0x9E3779B97F4A7C15);
    z = (z ^ (z >> 30)).wrapping_mul(0xBF58476D1CE4E5B9);
    z = (z ^ (z >> 27)).wrapping_mul(0x94D049BB133111EB);
    z ^ (z >> 31)
}

pub fn hash_str(s: &str) -> u64 {
    let mut h: u64 = 0xcbf29ce484222325;
    for b in s.as_bytes() {
        h ^= *b as u64;
        h = h.wrapping_mul(0x100000001b3);
    }
    splitmix(h)
}

/// All methods take &self (state in a Cell) so that `f(rng, rng.below(3))` and
/// `self.g(self.rng.below(3))` type-check.
impl Rng {
    pub fn from_seed(s: u64) -> Rng {
        Rng(std::cell::Cell::new(s))
    }
    pub fn new(seed: u64, stream: &str, k: u64) -> Rng {
        Rng::from_seed(splitmix(splitmix(seed ^ hash_str(stream)).wrapping_add(k.wrapping_mul(0xA24BAED4963EE407))))
    }
    pub fn next(&self) -> u64 {
        let st = self.0.get().wrapping_add(0x9E3779B97F4A7C15);
        self.0.set(st);
        let mut z = st;
        z = (z ^ (z >> 30)).wrapping_mul(0xBF58476D1CE4E5B9);
        z = (z ^ (z >> 27)).wrapping_mul(0x94D049BB133111EB);
        z ^ (z >> 31)
    }
    /// uniform in 0..n (n > 0)
    pub fn below(&self, n: usize) -> usize {
        (self.next() % (n as u64)) as usize
    }
    pub fn range(&self, lo: usize, hi_incl: usize) -> usize {
        lo + self.below(hi_incl - lo + 1)
    }
    pub fn chance(&self, num: usize, den: usize) -> bool {
        self.below(den) < num
    }
    pub fn pick<'a, T>(&self, xs: &'a [T]) -> &'a T {
        &xs[self.below(xs.len())]
    }
    pub fn ps(&self, xs: &[&'static str]) -> &'static str {
        xs[self.below(xs.len())]
    }
    pub fn shuffle<T>(&self, xs: &mut [T]) {
        for i in (1..xs.len()).rev() {
            let j = self.below(i + 1);
            xs.swap(i, j);
        }
    }
}

pub type CRng = Rng;

// ---------------------------------------------------------------- context

#[derive(Clone, Copy, PartialEq, Eq, Debug)]
pub enum Tier {
    Quick,
    Thorough,
}

impl Tier {
    pub fn name(&self) -> &'static str {
        match self {
            Tier::Quick => "quick",
            Tier::Thorough => "thorough",
        }
    }
    pub fn pick<T>(&self, q: T, t: T) -> T {
        match self {
            Tier::Quick => q,
            Tier::Thorough => t,
        }
    }
}

#[derive(Clone)]
pub struct Ctx {
    pub prop: &'static str,
    pub seed: u64,
    pub tier: Tier,
    /// Some((workload, k)) => only run that one case
    pub replay: Option<(String, u64)>,
    pub threads: usize,
    pub start: Instant,
}

// ---------------------------------------------------------------- accumulators

#[derive(Clone, Debug)]
pub struct Viol {
    pub signature: String,
    pub workload: String,
    pub k: u64,
    pub witness: Value,
}

#[derive(Default)]
pub struct Acc {
    pub evals: u64,
    pub nontrivial: HashSet<u64>,
    pub cov: BTreeMap<String, u64>,
    pub samples: Vec<(u64, Value)>,
    pub viol: Vec<Viol>,
    pub inconc: Vec<String>,
    pub discards: u64,
    pub cur_workload: String,
    pub cur_k: u64,
}

impl Acc {
    pub fn eval(&mut self) {
        self.evals += 1;
    }
    pub fn evals_n(&mut self, n: u64) {
        self.evals += n;
    }
    pub fn nontrivial_str(&mut self, s: &str) {
        self.nontrivial.insert(hash_str(s));
    }
    pub fn nontrivial_h(&mut self, h: u64) {
        self.nontrivial.insert(h);
    }
    pub fn cov(&mut self, key: &str) {
        *self.cov.entry(key.to_string()).or_insert(0) += 1;
    }
    pub fn cov_n(&mut self, key: &str, n: u64) {
        *self.cov.entry(key.to_string()).or_insert(0) += n;
    }
    pub fn cov_get(&self, key: &str) -> u64 {
        self.cov.get(key).copied().unwrap_or(0)
    }
    pub fn sample(&mut self, v: Value) {
        if self.samples.len() < 4 {
            self.samples.push((self.cur_k, v));
        }
    }
    pub fn violation(&mut self, signature: impl Into<String>, witness: Value) {
        self.viol.push(Viol {
            signature: signature.into(),
            workload: self.cur_workload.clone(),
            k: self.cur_k,
            witness,
        });
    }
    pub fn inconclusive(&mut self, why: impl Into<String>) {
        let w = why.into();
        if self.inconc.len() < 50 {
            self.inconc.push(w);
        }
    }
    pub fn merge(&mut self, o: Acc) {
        self.evals += o.evals;
        self.nontrivial.extend(o.nontrivial);
        for (k, v) in o.cov {
            *self.cov.entry(k).or_insert(0) += v;
        }
        self.samples.extend(o.samples);
        self.samples.sort_by_key(|s| s.0);
        self.samples.truncate(6);
        self.viol.extend(o.viol);
        self.inconc.extend(o.inconc);
        self.inconc.truncate(50);
        self.discards += o.discards;
    }
}

/// Run `n` cases of workload `name` on the worker pool.  Case k gets its own PRNG stream.
pub fn run_workload<F>(ctx: &Ctx, acc: &mut Acc, name: &str, n: u64, f: F)
where
    F: Fn(u64, &Rng, &mut Acc) + Sync,
{
    if let Some((w, k)) = &ctx.replay {
        if w != name {
            return;
        }
        let mut a = Acc::default();
        a.cur_workload = name.to_string();
        a.cur_k = *k;
        let rng = Rng::new(ctx.seed, &format!("{}/{}", ctx.prop, name), *k);
        f(*k, &rng, &mut a);
        acc.merge(a);
        return;
    }
    let next = AtomicU64::new(0);
    let out: Mutex<Vec<Acc>> = Mutex::new(vec![]);
    let threads = ctx.threads.max(1).min(n.max(1) as usize);
    std::thread::scope(|s| {
        for _ in 0..threads {
            // generous stacks: deeply nested inputs recurse deeply both in solstat and in the oracles
            let _ = std::thread::Builder::new().stack_size(1 << 30).spawn_scoped(s, || {
                let mut a = Acc::default();
                a.cur_workload = name.to_string();
                loop {
                    let k = next.fetch_add(1, Ordering::Relaxed);
                    if k >= n {
                        break;
                    }
                    a.cur_k = k;
                    let rng = Rng::new(ctx.seed, &format!("{}/{}", ctx.prop, name), k);
                    f(k, &rng, &mut a);
                }
                out.lock().unwrap().push(a);
            });
        }
    });
    for a in out.into_inner().unwrap() {
        acc.merge(a);
    }
    acc.viol.sort_by(|a, b| (a.workload.as_str(), a.k).cmp(&(b.workload.as_str(), b.k)));
}

// ---------------------------------------------------------------- panics

thread_local! {
    static LAST_PANIC: RefCell<Option<(String, String)>> = RefCell::new(None);
    static IN_GUARD: std::cell::Cell<u32> = std::cell::Cell::new(0);
}

pub fn install_silent_panic_hook() {
    std::panic::set_hook(Box::new(|info| {
        let msg = if let Some(s) = info.payload().downcast_ref::<&str>() {
            s.to_string()
        } else if let Some(s) = info.payload().downcast_ref::<String>() {
            s.clone()
        } else {
            "<non-string panic>".to_string()
        };
        let loc = info
            .location()
            .map(|l| format!("{}:{}", l.file(), l.line()))
            .unwrap_or_default();
        if IN_GUARD.with(|g| g.get()) == 0 {
            eprintln!("harness panic (not inside a guarded call): {} at {}", msg, loc);
        }
        LAST_PANIC.with(|p| *p.borrow_mut() = Some((msg, loc)));
    }));
}

/// Run f, catching panics.  Err((message, location)).
pub fn guarded<T, F: FnOnce() -> T + std::panic::UnwindSafe>(f: F) -> Result<T, (String, String)> {
    LAST_PANIC.with(|p| *p.borrow_mut() = None);
    IN_GUARD.with(|g| g.set(g.get() + 1));
    let r = std::panic::catch_unwind(f);
    IN_GUARD.with(|g| g.set(g.get() - 1));
    match r {
        Ok(v) => Ok(v),
        Err(_) => Err(LAST_PANIC
            .with(|p| p.borrow_mut().take())
            .unwrap_or(("<unknown>".into(), "".into()))),
    }
}

// ---------------------------------------------------------------- known findings

#[derive(Clone, Debug)]
pub struct Known {
    pub property: String,
    pub signature: String,
    pub status: String,
    pub what: String,
}

pub fn load_known() -> Vec<Known> {
    // /verif/known_findings.txt, one finding per line:
    //   open: property=<id> signature=<exact signature> <what fails>
    //   fixed: property=<id> <commit> <what failed>          (a log entry; suppresses nothing)
    let p = format!("{}/known_findings.txt", VERIF_DIR);
    let mut v = vec![];
    if let Ok(s) = std::fs::read_to_string(&p) {
        for line in s.lines() {
            let line = line.trim();
            let (status, rest) = if let Some(r) = line.strip_prefix("open:") {
                ("open", r.trim())
            } else if let Some(r) = line.strip_prefix("fixed:") {
                ("fixed", r.trim())
            } else {
                continue;
            };
            let mut property = String::new();
            let mut signature = String::new();
            let mut what = vec![];
            for w in rest.split(' ') {
                if let Some(p) = w.strip_prefix("property=") {
                    property = p.to_string();
                } else if let (Some(sg), true) = (w.strip_prefix("signature="), status == "open") {
                    signature = sg.to_string();
                } else {
                    what.push(w);
                }
            }
            v.push(Known { property, signature, status: status.to_string(), what: what.join(" ") });
        }
    }
    v
}

// ---------------------------------------------------------------- finish

pub struct Meta {
    pub rule: String,
    pub assumptions: Vec<String>,
    pub exhaustive_subspaces: Vec<String>,
    pub extra: Map<String, Value>,
}

impl Meta {
    pub fn new(rule: &str) -> Meta {
        Meta { rule: rule.to_string(), assumptions: vec![], exhaustive_subspaces: vec![], extra: Map::new() }
    }
}

fn sanitize(s: &str) -> String {
    s.chars().map(|c| if c.is_ascii_alphanumeric() || c == '-' || c == '_' || c == '.' { c } else { '_' }).collect()
}

/// Emits verdict lines, writes evidence and replays, returns the process exit code.
pub fn finish(ctx: &Ctx, acc: Acc, meta: Meta) -> i32 {
    let known = load_known();
    let open: Vec<&Known> = known.iter().filter(|k| k.property == ctx.prop && k.status == "open").collect();

    // group violations by signature
    let mut by_sig: BTreeMap<String, Vec<&Viol>> = BTreeMap::new();
    for v in &acc.viol {
        by_sig.entry(v.signature.clone()).or_default().push(v);
    }
    let out_dir = std::env::var("VMON_OUT_DIR").unwrap_or_else(|_| VERIF_DIR.to_string());
    let replay_dir = format!("{}/replays/{}", out_dir, ctx.prop);
    let _ = std::fs::create_dir_all(&replay_dir);
    let mut n_new = 0usize;
    let mut known_hit: BTreeSet<String> = BTreeSet::new();
    let mut new_sigs: Vec<String> = vec![];
    for (sig, vs) in &by_sig {
        let v = vs[0];
        let path = format!("{}/{}-{:08x}.json", replay_dir, sanitize(sig).chars().take(60).collect::<String>(), hash_str(sig) as u32);
        let body = json!({
            "property": ctx.prop, "signature": sig, "seed": ctx.seed, "tier": ctx.tier.name(),
            "workload": v.workload, "k": v.k, "occurrences": vs.len(), "witness": v.witness,
        });
        let _ = std::fs::write(&path, serde_json::to_string_pretty(&body).unwrap());
        if let Some(k) = open.iter().find(|k| &k.signature == sig) {
            if known_hit.insert(sig.clone()) {
                println!("KNOWN-FINDING: property={} signature={} {} (witness: {})", ctx.prop, sig, k.what, path);
            }
        } else {
            n_new += 1;
            new_sigs.push(sig.clone());
            if n_new <= 20 {
                println!("VIOLATION property={} replay={} signature={} occurrences={}", ctx.prop, path, sig, vs.len());
            }
        }
    }
    if n_new > 20 {
        println!("... {} further distinct violation signatures not listed", n_new - 20);
    }

    let inconclusive = !acc.inconc.is_empty() && ctx.replay.is_none();
    for w in &acc.inconc {
        println!("INCONCLUSIVE property={} reason={}", ctx.prop, w);
    }

    // evidence
    let wall = ctx.start.elapsed().as_secs_f64();
    let mut cov = Map::new();
    cov.insert("evaluations".into(), json!(acc.evals));
    cov.insert("distinct_nontrivial".into(), json!(acc.nontrivial.len()));
    cov.insert("rule".into(), json!(meta.rule));
    cov.insert("samples".into(), Value::Array(acc.samples.iter().map(|s| s.1.clone()).collect()));
    cov.insert("exhaustive".into(), json!(false));
    cov.insert("exhaustive_subspaces".into(), json!(meta.exhaustive_subspaces));
    cov.insert("discarded_cases".into(), json!(acc.discards));
    let mut tables = Map::new();
    for (k, v) in &acc.cov {
        tables.insert(k.clone(), json!(v));
    }
    cov.insert("observed".into(), Value::Object(tables));
    cov.insert("known_findings_matched".into(), json!(known_hit.iter().collect::<Vec<_>>()));
    cov.insert("new_violation_signatures".into(), json!(new_sigs));
    cov.insert("inconclusive_reasons".into(), json!(acc.inconc));
    for (k, v) in meta.extra {
        cov.insert(k, v);
    }
    let ev = json!({
        "property_id": ctx.prop,
        "tier": ctx.tier.name(),
        "seed": ctx.seed,
        "level": "exploration",
        "coverage": Value::Object(cov),
        "assumptions": meta.assumptions,
        "wall_s": wall,
        "violations": n_new,
        "verdict": if n_new > 0 { "violated" } else if inconclusive { "inconclusive" } else { "held-on-observed" },
    });
    if ctx.replay.is_none() {
        let dir = format!("{}/evidence", out_dir);
        let _ = std::fs::create_dir_all(&dir);
        let tmp = format!("{}/{}.json.tmp", dir, ctx.prop);
        let fin = format!("{}/{}.json", dir, ctx.prop);
        std::fs::write(&tmp, serde_json::to_string_pretty(&ev).unwrap()).expect("write evidence");
        std::fs::rename(&tmp, &fin).expect("rename evidence");
    }
    println!(
        "{} tier={} seed={} evaluations={} distinct_nontrivial={} violations={} known={} wall={:.1}s",
        ctx.prop, ctx.tier.name(), ctx.seed, acc.evals, acc.nontrivial.len(), n_new, known_hit.len(), wall
    );
    if n_new > 0 {
        1
    } else if inconclusive {
        2
    } else {
        0
    }
}

pub fn trunc(s: &str, n: usize) -> String {
    if s.len() <= n {
        s.to_string()
    } else {
        let mut e = n;
        while !s.is_char_boundary(e) {
            e -= 1;
        }
        format!("{}…[{} bytes]", &s[..e], s.len())
    }
}

/// a window of `s` starting a little before byte `d`, cut at char boundaries
pub fn around(s: &str, d: usize, before: usize, len: usize) -> String {
    let mut a = d.saturating_sub(before).min(s.len());
    while a > 0 && !s.is_char_boundary(a) {
        a -= 1;
    }
    trunc(&s[a..], len)
}

// ---------------------------------------------------------------- child processes

extern "C" {
    fn kill(pid: i32, sig: i32) -> i32;
    fn getppid() -> i32;
}

/// Kill (SIGKILL) every process that descends from this one: helper workers and `solstat` runs that a check
/// may leave behind when it stops early (a detector that does not terminate keeps its process busy for ever).
pub fn kill_descendants() {
    let me = std::process::id() as i32;
    for _ in 0..3 {
        let mut ppid: BTreeMap<i32, i32> = BTreeMap::new();
        if let Ok(rd) = std::fs::read_dir("/proc") {
            for e in rd.flatten() {
                if let Some(pid) = e.file_name().to_str().and_then(|s| s.parse::<i32>().ok()) {
                    if let Ok(st) = std::fs::read_to_string(format!("/proc/{}/stat", pid)) {
                        if let Some(close) = st.rfind(')') {
                            let rest: Vec<&str> = st[close + 1..].split_whitespace().collect();
                            if let Some(pp) = rest.get(1).and_then(|x| x.parse::<i32>().ok()) {
                                ppid.insert(pid, pp);
                            }
                        }
                    }
                }
            }
        }
        let mut victims: Vec<i32> = vec![];
        for (&pid, _) in ppid.iter() {
            let mut cur = pid;
            let mut hops = 0;
            while let Some(&pp) = ppid.get(&cur) {
                if pp == me && pid != me {
                    victims.push(pid);
                    break;
                }
                if pp <= 1 || hops > 64 {
                    break;
                }
                cur = pp;
                hops += 1;
            }
        }
        if victims.is_empty() {
            return;
        }
        for v in victims {
            unsafe {
                kill(v, 9);
            }
        }
        std::thread::sleep(std::time::Duration::from_millis(50));
    }
}

/// For helper processes: leave as soon as the process that started this one is gone.
pub fn exit_when_parent_dies() {
    let original = unsafe { getppid() };
    std::thread::spawn(move || loop {
        std::thread::sleep(std::time::Duration::from_millis(1000));
        if unsafe { getppid() } != original {
            std::process::exit(98);
        }
    });
}
