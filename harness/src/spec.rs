//! Spec predicates on the generator's AST (DESIGN.md section 8): for each detector, which
//! constructs MUST be reported, which are DONT_CARE; everything else is MUST_NOT.
//! Expectations are token indices (first token of the reported construct; alternatives allowed).
use crate::gast::*;
use std::collections::{BTreeMap, BTreeSet, HashMap, HashSet};

#[derive(Default, Debug, Clone)]
pub struct Expect {
    /// each entry: alternative token indices (any one of their lines satisfies), label of form, position label
    pub must: Vec<(BTreeSet<usize>, String, String)>,
    /// tokens whose line may be reported without consequence
    pub dont_care: BTreeSet<usize>,
    /// labelled MUST_NOT constructs (for coverage counting and signatures): token -> label
    pub must_not: BTreeMap<usize, String>,
}

pub type Specs = BTreeMap<&'static str, Expect>;

pub const SPEC_DETECTORS: [&str; 30] = [
    "address_balance", "address_zero", "bool_equals_bool", "assign_update_array_value", "cache_array_length", "increment_decrement",
    "multiple_require", "optimal_comparison", "shift_math", "solidity_keccak256", "solidity_math", "payable_function", "private_constant",
    "private_vars_leading_underscore", "private_func_leading_underscore", "constructor_order", "unsafe_erc20_operation",
    "divide_before_multiply", "floating_pragma", "unprotected_selfdestruct", "constant_variables", "immutable_variables",
    "memory_to_calldata", "sstore", "safe_math_pre_080", "safe_math_post_080", "string_errors", "short_revert_string",
    "pack_storage_variables", "pack_struct_variables",
];

pub fn strip(e: &Ex) -> &Ex {
    let mut c = e;
    while let E::Paren(i) = &c.e {
        c = i;
    }
    c
}

fn is_var(e: &Ex, n: &str) -> bool {
    matches!(&e.e, E::Var(x) if x == n)
}

pub fn is_msg_sender(e: &Ex) -> bool {
    matches!(&e.e, E::Member(b, m) if m == "sender" && is_var(b, "msg"))
}

fn is_type(e: &Ex) -> Option<&str> {
    if let E::Type(t) = &e.e {
        Some(t.as_str())
    } else {
        None
    }
}

fn digits(s: &str) -> String {
    s.chars().filter(|c| *c != '_').collect()
}

/// decimal string -> Some(k) if value == 2^k
pub fn pow2_exp(dec: &str) -> Option<u32> {
    let mut d: Vec<u8> = digits(dec).bytes().map(|b| b - b'0').skip_while(|x| *x == 0).collect();
    if d.is_empty() {
        return None;
    }
    let mut k = 0;
    loop {
        if d.len() == 1 && d[0] == 1 {
            return Some(k);
        }
        if d[d.len() - 1] % 2 == 1 {
            return None;
        }
        let mut carry = 0;
        for x in d.iter_mut() {
            let cur = carry * 10 + *x;
            *x = cur / 2;
            carry = cur % 2;
        }
        if d[0] == 0 {
            d.remove(0);
        }
        k += 1;
    }
}

#[derive(Clone, Copy, PartialEq, Eq, Debug)]
pub enum Where {
    Body,
    FnAttr,
    FnParam,
    Initializer,
    BaseArg,
    TypePos,
}

#[derive(Clone)]
struct Cx<'a> {
    contract: Option<&'a Contract>,
    func: Option<&'a Func>,
    wh: Where,
    unchecked: bool,
    for_cond: bool,
    /// label of the syntactic position of the expression being visited (parent kind + slot)
    pos: String,
}

#[derive(Clone, Debug)]
pub struct Write {
    pub name: String,
    /// "plain" | "compound" | "incdec"
    pub kind: &'static str,
    pub op: String,
    pub fn_kind: Option<FnKind>,
    pub fn_id: Option<Id>,
    pub wh: Where,
    pub pos: String,
    pub node: Id,
    /// for plain assignments: the right-hand side is a string literal / abi.* call / bytes(...) cast
    pub rhs_non_value: bool,
    pub contract: Option<Id>,
}

#[derive(Default)]
pub struct Facts {
    pub writes: Vec<Write>,
    /// names mentioned as tuple targets, under delete, as base of member/index writes, parenthesised targets
    pub weak: Vec<(String, &'static str, Option<Id>)>,
    /// plain assignments whose target is Index(Var p, Some(_)) : (p, fn id)
    pub index1_plain: Vec<(String, Option<Id>, Where)>,
    pub positions: BTreeSet<String>,
}

pub struct Out {
    pub specs: Specs,
    pub facts: Facts,
    /// (detector, form label, position label) triples seen, for coverage tables
    pub forms: Vec<(&'static str, String, String)>,
}

struct W<'a> {
    r: &'a Rendered,
    out: Out,
}

impl<'a> W<'a> {
    fn tok(&self, id: Id) -> usize {
        self.r.loc_tok_of(id).unwrap_or(usize::MAX)
    }
    fn first(&self, id: Id) -> usize {
        self.r.first_tok_of(id).unwrap_or(usize::MAX)
    }
    fn must(&mut self, d: &'static str, toks: &[usize], form: &str, pos: &str) {
        let e = self.out.specs.entry(d).or_default();
        e.must.push((toks.iter().copied().collect(), form.to_string(), pos.to_string()));
        self.out.forms.push((d, format!("MUST:{}", form), pos.to_string()));
    }
    fn dc(&mut self, d: &'static str, toks: &[usize], form: &str, pos: &str) {
        let e = self.out.specs.entry(d).or_default();
        e.dont_care.extend(toks.iter().copied());
        self.out.forms.push((d, format!("DC:{}", form), pos.to_string()));
    }
    fn not(&mut self, d: &'static str, tok: usize, form: &str, pos: &str) {
        let e = self.out.specs.entry(d).or_default();
        e.must_not.entry(tok).or_insert_with(|| form.to_string());
        self.out.forms.push((d, format!("NOT:{}", form), pos.to_string()));
    }
}

fn addr_like(t: &str) -> bool {
    t == "address" || t == "payable" || t == "address payable"
}

/// shift_math operand classes
#[derive(PartialEq, Eq, Clone, Copy, Debug)]
enum LitClass {
    Pow2,
    One,
    NotPow2,
    Dc,
    Neutral,
}

fn lit_class(e: &Ex) -> LitClass {
    match &e.e {
        E::Num(d, exp) => {
            let dd = digits(d);
            let zero = dd.chars().all(|c| c == '0');
            if exp.is_empty() {
                match pow2_exp(&dd) {
                    Some(0) => LitClass::One,
                    Some(_) => LitClass::Pow2,
                    None => LitClass::NotPow2,
                }
            } else {
                let neg = exp.starts_with('-');
                let ezero = digits(exp.trim_start_matches('-')).chars().all(|c| c == '0');
                if !neg && !ezero && !zero {
                    LitClass::NotPow2
                } else {
                    LitClass::Dc
                }
            }
        }
        E::HexNum(_) | E::Rational(..) | E::Unit(..) => LitClass::Dc,
        E::Paren(_) => match lit_class(strip(e)) {
            LitClass::Neutral => LitClass::Neutral,
            _ => LitClass::Dc,
        },
        _ => LitClass::Neutral,
    }
}

const TEN_OPS: [BinOp; 10] = [BinOp::Add, BinOp::Sub, BinOp::Mul, BinOp::Div, BinOp::Mod, BinOp::Shl, BinOp::Shr, BinOp::BitAnd, BinOp::BitOr, BinOp::BitXor];

fn contains_and(e: &Ex) -> bool {
    let mut found = false;
    crate::prog::walk_expr(e, &mut |x| {
        if matches!(&x.e, E::Bin(BinOp::And, _, _)) {
            found = true;
        }
    });
    found
}

fn non_value_rhs(r: &Ex) -> bool {
    match &r.e {
        E::Str(_) => true,
        E::Call(f, _) => match &f.e {
            E::Member(b, _) if is_var(b, "abi") => true,
            E::Type(t) if t == "bytes" => true,
            _ => false,
        },
        _ => false,
    }
}

/// anything that makes the "simple right-hand side" reading doubtful
fn doubtful_rhs(r: &Ex) -> bool {
    let mut d = false;
    crate::prog::walk_expr(r, &mut |x| match &x.e {
        E::Str(_) | E::HexStr(_) | E::ArrayLit(_) | E::List(_) | E::NamedCall(..) | E::CallBlock(..) | E::Un(UnOp::New, _) | E::Slice(..) => d = true,
        E::Call(f, _) => match &f.e {
            E::Type(t) if t != "bytes" && t != "string" => {}
            // calls of named functions and of members of anything but `abi`: the variable's declared type is a value type,
            // whatever the function that produces the value is called (C08: "always suggests such a value-typed variable")
            E::Var(_) => {}
            E::Member(b, _) if !is_var(b, "abi") => {}
            _ => d = true,
        },
        _ => {}
    });
    d
}

impl<'a> W<'a> {
    fn base_names(&mut self, lhs: &Ex, how: &'static str, fnid: Option<Id>) {
        match &lhs.e {
            E::Var(n) => self.out.facts.weak.push((n.clone(), how, fnid)),
            E::Paren(i) => self.base_names(i, how, fnid),
            E::Index(b, _) | E::Member(b, _) | E::Slice(b, _, _) => self.base_names(b, how, fnid),
            E::List(slots) => {
                for s in slots.iter().flatten() {
                    self.base_names(&s.ty, "tuple-target", fnid);
                }
            }
            E::Call(f, _) => self.base_names(f, how, fnid),
            _ => {}
        }
    }

    fn record_write(&mut self, target: &Ex, kind: &'static str, op: &str, node: Id, rhs: Option<&Ex>, cx: &Cx) {
        let fnid = cx.func.map(|f| f.id);
        match &target.e {
            E::Var(n) => {
                self.out.facts.writes.push(Write {
                    name: n.clone(),
                    kind,
                    op: op.to_string(),
                    fn_kind: cx.func.map(|f| f.kind),
                    fn_id: fnid,
                    wh: cx.wh,
                    pos: cx.pos.clone(),
                    node,
                    rhs_non_value: rhs.map(non_value_rhs).unwrap_or(false),
                    contract: cx.contract.map(|c| c.id),
                });
            }
            E::Index(b, Some(_)) if matches!(&b.e, E::Var(_)) && kind == "plain" => {
                if let E::Var(n) = &b.e {
                    self.out.facts.index1_plain.push((n.clone(), fnid, cx.wh));
                    self.out.facts.weak.push((n.clone(), "index-write", fnid));
                }
            }
            E::Paren(_) => self.base_names(target, "parenthesised-target", fnid),
            E::List(_) => self.base_names(target, "tuple-target", fnid),
            E::Member(..) => self.base_names(target, "member-write", fnid),
            _ => self.base_names(target, "index-write", fnid),
        }
    }

    fn expr(&mut self, e: &Ex, cx: &Cx) {
        let tok = self.tok(e.id);
        let pos = cx.pos.clone();
        self.out.facts.positions.insert(pos.clone());
        let sub = |slot: &str, kind: &str| -> Cx {
            let mut c = cx.clone();
            c.pos = format!("{}.{}", kind, slot);
            c
        };
        match &e.e {
            E::Member(b, m) => {
                // address_balance
                if m == "balance" {
                    match &b.e {
                        E::Call(f, args) if is_type(f) == Some("address") && args.len() == 1 => self.must("address_balance", &[tok], "address(e).balance", &pos),
                        E::Call(f, _) if is_type(f).map(addr_like).unwrap_or(false) => self.dc("address_balance", &[tok], "cast-variant.balance", &pos),
                        E::Paren(_) => {
                            if let E::Call(f, _) = &strip(b).e {
                                if is_type(f).map(addr_like).unwrap_or(false) {
                                    self.dc("address_balance", &[tok], "(address(e)).balance", &pos);
                                }
                            }
                        }
                        _ => self.not("address_balance", tok, "e.balance", &pos),
                    }
                } else if let E::Call(f, _) = &b.e {
                    if is_type(f) == Some("address") {
                        self.not("address_balance", tok, "address(e).other-member", &pos);
                    }
                }
                // cache_array_length
                if m == "length" {
                    if cx.for_cond {
                        self.must("cache_array_length", &[tok], ".length-in-for-condition", &pos);
                    } else {
                        self.not("cache_array_length", tok, ".length-elsewhere", &pos);
                    }
                } else if cx.for_cond {
                    self.not("cache_array_length", tok, "other-member-in-for-condition", &pos);
                }
                // erc20
                if m == "transfer" || m == "transferFrom" || m == "approve" {
                    self.must("unsafe_erc20_operation", &[tok], m, &pos);
                } else if m.to_lowercase().contains("transfer") || m.to_lowercase().contains("approve") {
                    self.not("unsafe_erc20_operation", tok, "look-alike-member", &pos);
                }
                self.expr(b, &sub("object", "MemberAccess"));
            }
            E::Bin(op, a, b) => {
                let kind = op.kind();
                // address_zero / bool_equals_bool
                if *op == BinOp::Eq || *op == BinOp::Ne {
                    let is_az = |x: &Ex| -> u8 {
                        // 2 = canonical address(0); 1 = doubtful; 0 = no
                        match &x.e {
                            E::Call(f, args) if is_type(f) == Some("address") => {
                                if args.len() == 1 && matches!(&args[0].e, E::Num(d, ex) if d == "0" && ex.is_empty()) {
                                    2
                                } else if args.is_empty() || args.len() > 1 || matches!(&args[0].e, E::Num(..) | E::HexNum(_) | E::Paren(_)) {
                                    1
                                } else {
                                    0
                                }
                            }
                            E::Paren(_) => {
                                if let E::Call(f, _) = &strip(x).e {
                                    if is_type(f) == Some("address") {
                                        return 1;
                                    }
                                }
                                0
                            }
                            _ => 0,
                        }
                    };
                    let (za, zb) = (is_az(a), is_az(b));
                    if za == 2 || zb == 2 {
                        self.must("address_zero", &[tok], "e==address(0)", &pos);
                    } else if za == 1 || zb == 1 {
                        self.dc("address_zero", &[tok], "address(0)-variant", &pos);
                    } else {
                        self.not("address_zero", tok, "other-equality", &pos);
                    }
                    let is_b = |x: &Ex| -> u8 {
                        match &x.e {
                            E::Bool(_) => 2,
                            E::Paren(_) if matches!(&strip(x).e, E::Bool(_)) => 1,
                            _ => 0,
                        }
                    };
                    let (ba, bb) = (is_b(a), is_b(b));
                    if ba == 2 || bb == 2 {
                        self.must("bool_equals_bool", &[tok], "e==bool", &pos);
                    } else if ba == 1 || bb == 1 {
                        self.dc("bool_equals_bool", &[tok], "(bool)==e", &pos);
                    } else {
                        self.not("bool_equals_bool", tok, "other-equality", &pos);
                    }
                } else if *op == BinOp::Lt || *op == BinOp::Gt || *op == BinOp::Assign {
                    // near misses with address(0)/bool operands
                    let has_az = [a, b].iter().any(|x| matches!(&x.e, E::Call(f, _) if is_type(f) == Some("address")));
                    if has_az {
                        self.not("address_zero", tok, "address(0)-non-equality", &pos);
                    }
                }
                if matches!(op, BinOp::And | BinOp::Or) && [a, b].iter().any(|x| matches!(&x.e, E::Bool(_))) {
                    self.not("bool_equals_bool", tok, "bool-with-logical-operator", &pos);
                }
                // optimal_comparison
                match op {
                    BinOp::Ge | BinOp::Le => self.must("optimal_comparison", &[tok], op.sym(), &pos),
                    BinOp::Gt | BinOp::Lt | BinOp::Eq | BinOp::Ne | BinOp::Shr | BinOp::Shl | BinOp::AssignShr | BinOp::AssignShl => self.not("optimal_comparison", tok, op.sym(), &pos),
                    _ => {}
                }
                // solidity_math
                match op {
                    BinOp::Add | BinOp::Sub | BinOp::Mul | BinOp::Div => self.must("solidity_math", &[tok], op.sym(), &pos),
                    BinOp::AssignAdd | BinOp::AssignSub | BinOp::AssignMul | BinOp::AssignDiv => self.dc("solidity_math", &[tok], "compound", &pos),
                    BinOp::Mod | BinOp::Pow | BinOp::Shl | BinOp::Shr => self.not("solidity_math", tok, op.sym(), &pos),
                    _ => {}
                }
                // shift_math
                if *op == BinOp::Mul || *op == BinOp::Div {
                    let (ca, cb) = (lit_class(a), lit_class(b));
                    let form = format!("{}{}{:?}/{:?}", if *op == BinOp::Mul { "mul" } else { "div" }, ":", ca, cb);
                    if *op == BinOp::Mul && (ca == LitClass::Pow2 || cb == LitClass::Pow2) {
                        self.must("shift_math", &[tok], &form, &pos);
                    } else if *op == BinOp::Div && cb == LitClass::Pow2 {
                        self.must("shift_math", &[tok], &form, &pos);
                    } else if (*op == BinOp::Div && ca == LitClass::Pow2) || ca == LitClass::Dc || cb == LitClass::Dc || ca == LitClass::One || cb == LitClass::One {
                        self.dc("shift_math", &[tok], &form, &pos);
                    } else {
                        self.not("shift_math", tok, &form, &pos);
                    }
                } else if matches!(op, BinOp::Add | BinOp::Mod | BinOp::Pow | BinOp::Shl | BinOp::AssignMul | BinOp::AssignDiv) && (lit_class(a) == LitClass::Pow2 || lit_class(b) == LitClass::Pow2) {
                    self.not("shift_math", tok, "pow2-with-other-operator", &pos);
                }
                // divide_before_multiply
                if *op == BinOp::Mul {
                    let mut cur: &Ex = a;
                    let mut shape = String::from("mul");
                    let verdict = loop {
                        match &cur.e {
                            E::Bin(BinOp::Div, _, _) => break true,
                            E::Bin(BinOp::Mul, n, _) => {
                                shape.push_str("<mul");
                                cur = n;
                            }
                            E::Paren(n) => {
                                shape.push_str("<paren");
                                cur = n;
                            }
                            _ => break false,
                        }
                    };
                    if verdict {
                        self.must("divide_before_multiply", &[tok], &format!("{}<div", shape), &pos);
                    } else {
                        self.not("divide_before_multiply", tok, &shape, &pos);
                    }
                }
                if *op == BinOp::AssignDiv {
                    let mut cur: &Ex = b;
                    let mut shape = String::from("/=");
                    let verdict = loop {
                        match &cur.e {
                            E::Bin(BinOp::Mul, _, _) => break true,
                            E::Bin(o, n, _) if matches!(o, BinOp::Div | BinOp::Add | BinOp::Sub | BinOp::Mod | BinOp::BitAnd | BinOp::BitOr | BinOp::BitXor | BinOp::Shl | BinOp::Shr) => {
                                shape.push_str("<op");
                                cur = n;
                            }
                            E::Paren(n) => {
                                shape.push_str("<paren");
                                cur = n;
                            }
                            _ => break false,
                        }
                    };
                    if verdict {
                        self.must("divide_before_multiply", &[tok], &format!("{}<mul", shape), &pos);
                    } else {
                        self.not("divide_before_multiply", tok, &shape, &pos);
                    }
                }
                // assign_update_array_value
                if *op == BinOp::Assign {
                    if let E::Index(ab, Some(ai)) = &a.e {
                        let rhs = strip(b);
                        if let E::Bin(rop, rl, rr) = &rhs.e {
                            if TEN_OPS.contains(rop) {
                                let canon_lhs = match (&ab.e, &ai.e) {
                                    (E::Var(n), E::Num(k, ex)) if ex.is_empty() => Some((n.clone(), k.clone())),
                                    _ => None,
                                };
                                let idx_of = |x: &Ex| -> Option<(String, String)> {
                                    if let E::Index(xb, Some(xi)) = &x.e {
                                        if let (E::Var(n), E::Num(k, ex)) = (&xb.e, &xi.e) {
                                            if ex.is_empty() {
                                                return Some((n.clone(), k.clone()));
                                            }
                                        }
                                    }
                                    None
                                };
                                let any_index = |x: &Ex| matches!(&strip(x).e, E::Index(..));
                                let paren_rhs = !std::ptr::eq(rhs, &**b);
                                if let (Some(l), Some(r1), false) = (&canon_lhs, idx_of(rl), paren_rhs) {
                                    if l.0 == r1.0 && digits(&l.1) == digits(&r1.1) && l.1 == r1.1 {
                                        self.must("assign_update_array_value", &[tok], "a[k]=a[k]op e", &pos);
                                    } else if !any_index(rr) {
                                        self.not("assign_update_array_value", tok, "a[k]=b[j]op e", &pos);
                                    } else {
                                        self.dc("assign_update_array_value", &[tok], "mixed", &pos);
                                    }
                                } else if !any_index(rl) && !any_index(rr) {
                                    self.not("assign_update_array_value", tok, "a[k]=e op f", &pos);
                                } else if !any_index(rl) && matches!(rop, BinOp::Sub | BinOp::Div | BinOp::Mod | BinOp::Shl | BinOp::Shr) && canon_lhs.is_some() && idx_of(rr) == canon_lhs && !paren_rhs {
                                    // the element is the RIGHT operand of a non-commutative operator: `a[k] = e - a[k]` has no
                                    // compound-assignment form, it is not the documented `a[k] = a[k] op e`
                                    self.not("assign_update_array_value", tok, "a[k]=e nonCommutativeOp a[k]", &pos);
                                } else {
                                    self.dc("assign_update_array_value", &[tok], "near-miss", &pos);
                                }
                            } else {
                                self.not("assign_update_array_value", tok, "a[k]=other-binary", &pos);
                            }
                        } else {
                            self.not("assign_update_array_value", tok, "a[k]=e", &pos);
                        }
                    }
                } else if op.is_assign() {
                    if let E::Index(..) = &a.e {
                        self.not("assign_update_array_value", tok, "a[k] op= e", &pos);
                    }
                }
                // writes
                if op.is_assign() {
                    let k = if *op == BinOp::Assign { "plain" } else { "compound" };
                    self.record_write(a, k, op.sym(), e.id, Some(b), cx);
                }
                self.expr(a, &sub("left", kind));
                self.expr(b, &sub("right", kind));
            }
            E::Un(op, a) => {
                match op {
                    UnOp::PreInc | UnOp::PreDec => {
                        if cx.unchecked {
                            self.not("increment_decrement", tok, "prefix-in-unchecked", &pos);
                        } else {
                            self.must("increment_decrement", &[tok], "prefix", &pos);
                        }
                        self.dc("solidity_math", &[tok], "incdec", &pos);
                        self.record_write(a, "incdec", op.sym(), e.id, None, cx);
                    }
                    UnOp::Delete => {
                        let fnid = cx.func.map(|f| f.id);
                        self.base_names(a, "delete", fnid);
                    }
                    _ => {}
                }
                self.expr(a, &sub("operand", op.kind()));
            }
            E::PostInc(a) | E::PostDec(a) => {
                self.must("increment_decrement", &[tok], if cx.unchecked { "postfix-in-unchecked" } else { "postfix" }, &pos);
                self.dc("solidity_math", &[tok], "incdec", &pos);
                self.record_write(a, "incdec", "post", e.id, None, cx);
                self.expr(a, &sub("operand", "PostIncDec"));
            }
            E::Paren(a) => self.expr(a, &sub("inner", "Parenthesis")),
            E::Ternary(c, a, b) => {
                self.expr(c, &sub("cond", "Ternary"));
                self.expr(a, &sub("then", "Ternary"));
                self.expr(b, &sub("else", "Ternary"));
            }
            E::Call(f, args) => {
                if let E::Var(name) = &f.e {
                    // multiple_require
                    if name == "require" {
                        if args.iter().any(|a| matches!(&a.e, E::Bin(BinOp::And, _, _))) {
                            self.must("multiple_require", &[tok], "require(a&&b)", &pos);
                        } else if args.iter().any(contains_and) {
                            self.dc("multiple_require", &[tok], "require(nested-and)", &pos);
                        } else {
                            self.not("multiple_require", tok, "require(no-and)", &pos);
                        }
                    } else if args.iter().any(|a| matches!(&a.e, E::Bin(BinOp::And, _, _))) {
                        self.not("multiple_require", tok, "other-callee(a&&b)", &pos);
                    }
                    // keccak
                    if name == "keccak256" {
                        self.must("solidity_keccak256", &[tok], "keccak256(..)", &pos);
                    } else if name == "sha256" || name == "ripemd160" || name == "keccak" {
                        self.not("solidity_keccak256", tok, "other-hash", &pos);
                    }
                    // string gates are handled by the caller-independent pass below (needs version)
                }
                if let E::Member(_, m) = &f.e {
                    if m == "keccak256" {
                        self.dc("solidity_keccak256", &[tok], "x.keccak256()", &pos);
                    }
                }
                self.expr(f, &sub("callee", "FunctionCall"));
                for a in args {
                    self.expr(a, &sub("arg", "FunctionCall"));
                }
            }
            E::NamedCall(f, args) => {
                self.expr(f, &sub("callee", "NamedFunctionCall"));
                for (_, a) in args {
                    self.expr(a, &sub("arg", "NamedFunctionCall"));
                }
            }
            E::CallBlock(f, args, _) => {
                self.expr(f, &sub("callee", "FunctionCallBlock"));
                for (_, a) in args {
                    self.expr(a, &sub("arg", "FunctionCallBlock"));
                }
            }
            E::Index(a, i) => {
                self.expr(a, &sub("base", "ArraySubscript"));
                if let Some(i) = i {
                    self.expr(i, &sub("index", "ArraySubscript"));
                }
            }
            E::Slice(a, l, h) => {
                self.expr(a, &sub("base", "ArraySlice"));
                if let Some(l) = l {
                    self.expr(l, &sub("from", "ArraySlice"));
                }
                if let Some(h) = h {
                    self.expr(h, &sub("to", "ArraySlice"));
                }
            }
            E::ArrayLit(es) => {
                for a in es {
                    self.expr(a, &sub("element", "ArrayLiteral"));
                }
            }
            E::List(slots) => {
                for s in slots.iter().flatten() {
                    self.expr(&s.ty, &sub("slot", "List"));
                }
            }
            E::Mapping(k, v) => {
                self.expr(k, &sub("key", "Mapping"));
                self.expr(v, &sub("value", "Mapping"));
            }
            E::FnType { params, returns, .. } => {
                for p in params {
                    self.expr(&p.ty, &sub("param", "FunctionType"));
                }
                if let Some(rs) = returns {
                    for p in rs {
                        self.expr(&p.ty, &sub("return", "FunctionType"));
                    }
                }
            }
            E::Unit(a, _) => self.expr(a, &sub("value", "Unit")),
            _ => {}
        }
    }

    fn stmt(&mut self, s: &St, cx: &Cx) {
        fn sub<'b>(slot: &str, kind: &str, c: &Cx<'b>) -> Cx<'b> {
            let mut c2 = c.clone();
            c2.pos = format!("{}.{}", kind, slot);
            c2
        }
        match &s.s {
            S::Expr(e) => self.expr(e, &sub("expr", "ExpressionStatement", cx)),
            S::VarDef { ty, init, .. } => {
                let mut c = sub("type", "LocalVariable", cx);
                let w = c.wh;
                c.wh = w;
                self.expr(ty, &c);
                if let Some(i) = init {
                    self.expr(i, &sub("init", "LocalVariable", cx));
                }
            }
            S::Block { unchecked, stmts } => {
                let mut c = cx.clone();
                c.unchecked = cx.unchecked || *unchecked;
                for x in stmts {
                    self.stmt(x, &c);
                }
            }
            S::If(c, a, b) => {
                self.expr(c, &sub("cond", "If", cx));
                self.stmt(a, cx);
                if let Some(b) = b {
                    self.stmt(b, cx);
                }
            }
            S::While(c, b) => {
                self.expr(c, &sub("cond", "While", cx));
                self.stmt(b, cx);
            }
            S::DoWhile(b, c) => {
                self.stmt(b, cx);
                self.expr(c, &sub("cond", "DoWhile", cx));
            }
            S::For { init, cond, next, body } => {
                if let Some(i) = init {
                    let mut c = cx.clone();
                    c.pos = "For.init".into();
                    self.stmt_with_pos(i, &c, "For.init");
                }
                if let Some(c) = cond {
                    let mut cc = sub("cond", "For", cx);
                    cc.for_cond = true;
                    self.expr(c, &cc);
                }
                if let Some(n) = next {
                    self.stmt_with_pos(n, cx, "For.next");
                }
                if let Some(b) = body {
                    self.stmt(b, cx);
                }
            }
            S::Return(e) => {
                if let Some(e) = e {
                    self.expr(e, &sub("value", "Return", cx));
                }
            }
            S::Emit(e) => self.expr(e, &sub("event", "Emit", cx)),
            S::Revert(_, args) => {
                for a in args {
                    self.expr(a, &sub("arg", "Revert", cx));
                }
            }
            S::RevertNamed(_, args) => {
                for (_, a) in args {
                    self.expr(a, &sub("arg", "RevertNamedArgs", cx));
                }
            }
            S::Try { expr, returns, catches } => {
                self.expr(expr, &sub("expr", "Try", cx));
                if let Some((ps, b)) = returns {
                    for p in ps {
                        self.expr(&p.ty, &sub("returns-type", "Try", cx));
                    }
                    self.stmt_tagged(b, cx, if ps.is_empty() { "try-success-block-without-returns" } else { "try-success-block" });
                }
                for c in catches {
                    match c {
                        Catch::Simple(p, b) => {
                            if let Some(p) = p {
                                self.expr(&p.ty, &sub("catch-param-type", "Try", cx));
                            }
                            self.stmt_tagged(b, cx, "catch-body");
                        }
                        Catch::Named(_, p, b) => {
                            self.expr(&p.ty, &sub("catch-param-type", "Try", cx));
                            self.stmt_tagged(b, cx, "catch-body");
                        }
                    }
                }
            }
            S::Break | S::Continue | S::Assembly(_) => {}
        }
    }

    /// simple statements in for headers: label positions by the header slot
    fn stmt_with_pos(&mut self, s: &St, cx: &Cx, label: &str) {
        let mut c = cx.clone();
        c.pos = label.to_string();
        match &s.s {
            S::Expr(e) => self.expr(e, &c),
            S::VarDef { ty, init, .. } => {
                self.expr(ty, &c);
                if let Some(i) = init {
                    self.expr(i, &c);
                }
            }
            _ => self.stmt(s, cx),
        }
    }

    fn stmt_tagged(&mut self, s: &St, cx: &Cx, tag: &str) {
        self.out.facts.positions.insert(tag.to_string());
        // expressions directly inside keep their own position labels; the tag is recorded for coverage
        self.stmt(s, cx);
    }
}

fn elementary(ty: &Ex) -> Option<&str> {
    if let E::Type(t) = &ty.e {
        Some(t.as_str())
    } else {
        None
    }
}

fn value_typed(t: &str) -> bool {
    t != "string" && t != "bytes"
}

fn explicit_vis(f: &Func) -> Option<&'static str> {
    f.attrs.iter().find_map(|a| if let FAttr::Vis(v) = a { Some(*v) } else { None })
}

/// the file's single `pragma solidity` version, if it names exactly one full version
pub fn file_version(f: &File) -> Option<(u64, u64, u64)> {
    let sol: Vec<&String> = f.items.iter().filter_map(|i| if let Item::Pragma(_, n, v) = i { if n == "solidity" { Some(v) } else { None } } else { None }).collect();
    if sol.len() != 1 {
        return None;
    }
    parse_version(sol[0])
}

pub fn parse_version(v: &str) -> Option<(u64, u64, u64)> {
    let t = v.trim();
    let t = t.trim_start_matches(|c: char| c == '^' || c == '~' || c == '=' || c == '>' || c == '<').trim();
    let parts: Vec<&str> = t.split('.').collect();
    if parts.len() != 3 || parts.iter().any(|p| p.is_empty() || !p.chars().all(|c| c.is_ascii_digit())) {
        return None;
    }
    let v: (u64, u64, u64) = (parts[0].parse().ok()?, parts[1].parse().ok()?, parts[2].parse().ok()?);
    // components beyond i32 are outside what the statement's quantifier exercises (<= 10^9)
    if v.0 > 1_000_000_000 || v.1 > 1_000_000_000 || v.2 > 1_000_000_000 {
        return None;
    }
    Some(v)
}

pub fn compute(file: &File, r: &Rendered) -> Out {
    let mut w = W { r, out: Out { specs: Specs::new(), facts: Facts::default(), forms: vec![] } };
    for d in SPEC_DETECTORS.iter() {
        w.out.specs.insert(d, Expect::default());
    }
    let version = file_version(file);
    let n_sol_pragmas = file.items.iter().filter(|i| matches!(i, Item::Pragma(_, n, _) if n == "solidity")).count();

    // ---------------- pass 1: walk everything
    let mut uses_safemath_clear = false;
    let mut uses_safemath_doubtful = false;
    let mut note_using = |p: &Part, clear: &mut bool, doubt: &mut bool| {
        if let Part::Using(_, list, braces, _, _) = p {
            if *braces {
                if list.iter().any(|x| x.contains("SafeMath")) {
                    *doubt = true;
                }
            } else if list.len() == 1 && (list[0] == "SafeMath" || list[0].ends_with(".SafeMath")) {
                // `using SafeMath for ..` and `using Libs.SafeMath for ..`: a library called SafeMath
                *clear = true;
            } else if list.iter().any(|x| x.split('.').any(|s| s == "SafeMath")) {
                *doubt = true;
            }
        }
    };
    for it in &file.items {
        match it {
            Item::Pragma(id, name, value) => {
                let tok = w.tok(*id);
                let v = value.trim();
                if name == "solidity" {
                    let exact = parse_version(v).is_some() && (v.chars().next().map(|c| c.is_ascii_digit()).unwrap_or(false) || v.starts_with('='));
                    if v.starts_with('^') {
                        w.must("floating_pragma", &[tok], "^version", "pragma");
                    } else if v.contains('^') {
                        // a caret range anywhere in the value is still a caret-ranged pragma
                        w.must("floating_pragma", &[tok], "caret-range-not-first", "pragma");
                    } else if exact {
                        w.not("floating_pragma", tok, "pinned", "pragma");
                    } else {
                        w.dc("floating_pragma", &[tok], "range-or-other", "pragma");
                    }
                } else if value.contains('^') {
                    w.dc("floating_pragma", &[tok], "other-pragma-with-caret", "pragma");
                } else {
                    w.not("floating_pragma", tok, "other-pragma", "pragma");
                }
            }
            Item::Import(..) => {}
            Item::Contract(c) => {
                for p in &c.parts {
                    note_using(p, &mut uses_safemath_clear, &mut uses_safemath_doubtful);
                }
                let cx0 = Cx { contract: Some(c), func: None, wh: Where::BaseArg, unchecked: false, for_cond: false, pos: "ContractDefinition.base-arg".into() };
                for (_, args) in &c.bases {
                    if let Some(a) = args {
                        for x in a {
                            w.expr(x, &cx0);
                        }
                    }
                }
                for p in &c.parts {
                    walk_part(&mut w, p, Some(c));
                }
            }
            Item::Part(p) => {
                note_using(p, &mut uses_safemath_clear, &mut uses_safemath_doubtful);
                walk_part(&mut w, p, None);
            }
        }
    }

    // ---------------- declaration-level detectors (C06)
    for it in &file.items {
        let c = match it {
            Item::Contract(c) => c,
            Item::Part(Part::Func(f)) => {
                // free functions: everything about them is DONT_CARE for the declaration detectors
                let t = w.tok(f.id);
                w.dc("payable_function", &[t], "free-function", "file");
                w.dc("private_func_leading_underscore", &[t, t + 1], "free-function", "file");
                continue;
            }
            _ => continue,
        };
        let mut fn_seen = false;
        for p in &c.parts {
            match p {
                Part::Func(f) => {
                    let t = w.tok(f.id);
                    let vis = explicit_vis(f);
                    let payable = f.attrs.iter().any(|a| matches!(a, FAttr::Mut("payable")));
                    let cell = format!("{:?}/{}/{}/{}", f.kind, vis.unwrap_or("none"), if payable { "payable" } else { "nonpayable" }, if f.body.is_some() { "body" } else { "nobody" });
                    // payable_function
                    match f.kind {
                        FnKind::Function => {
                            if f.body.is_none() || payable || matches!(vis, Some("internal") | Some("private")) {
                                w.not("payable_function", t, &cell, c.kind);
                            } else if matches!(vis, Some("public") | Some("external")) {
                                w.must("payable_function", &[t], &cell, c.kind);
                            } else {
                                // no visibility keyword: not a function *declared* public or external (C06: the verdict
                                // depends only on the declaration, not on what a compiler version would default to)
                                w.not("payable_function", t, &cell, c.kind);
                            }
                        }
                        FnKind::Modifier => w.not("payable_function", t, &cell, c.kind),
                        _ => w.dc("payable_function", &[t], &cell, c.kind),
                    }
                    // private_func_leading_underscore: name token follows the keyword
                    let name_tok = t + 1;
                    match (f.kind, &f.name) {
                        (FnKind::Function, Some(n)) => {
                            let us = n.starts_with('_');
                            match vis {
                                Some("private") | Some("internal") => {
                                    if !us {
                                        w.must("private_func_leading_underscore", &[name_tok, t], &format!("{}-without-underscore", vis.unwrap()), c.kind);
                                    } else {
                                        w.not("private_func_leading_underscore", name_tok, "consistent", c.kind);
                                    }
                                }
                                Some(_) => {
                                    if us {
                                        w.must("private_func_leading_underscore", &[name_tok, t], &format!("{}-with-underscore", vis.unwrap()), c.kind);
                                    } else {
                                        w.not("private_func_leading_underscore", name_tok, "consistent", c.kind);
                                    }
                                }
                                None => w.dc("private_func_leading_underscore", &[name_tok, t], "no-visibility", c.kind),
                            }
                        }
                        _ => w.not("private_func_leading_underscore", name_tok, "not-a-named-function", c.kind),
                    }
                    // constructor_order
                    match f.kind {
                        FnKind::Constructor => {
                            if fn_seen {
                                w.must("constructor_order", &[t], "constructor-after-function", c.kind);
                            } else {
                                w.not("constructor_order", t, "constructor-well-placed", c.kind);
                            }
                        }
                        FnKind::Modifier => {}
                        _ => fn_seen = true,
                    }
                }
                Part::Var(v) => {
                    let t = w.tok(v.id);
                    let is_const = v.attrs.contains(&"constant");
                    let vis = v.attrs.iter().find(|a| matches!(**a, "public" | "private" | "internal")).copied();
                    let elem = elementary(&v.ty).is_some();
                    // private_constant
                    if is_const {
                        if !elem {
                            w.dc("private_constant", &[t], "non-elementary-constant", c.kind);
                        } else if vis == Some("private") {
                            w.not("private_constant", t, "constant-private", c.kind);
                        } else {
                            w.must("private_constant", &[t], &format!("constant-{}", vis.unwrap_or("default")), c.kind);
                        }
                    } else {
                        w.not("private_constant", t, "not-constant", c.kind);
                    }
                    // private_vars_leading_underscore
                    let us = v.name.starts_with('_');
                    if !elem || is_const {
                        w.dc("private_vars_leading_underscore", &[t], "non-elementary-or-constant", c.kind);
                    } else {
                        match vis {
                            Some("private") | Some("internal") => {
                                if !us {
                                    w.must("private_vars_leading_underscore", &[t], &format!("{}-without-underscore", vis.unwrap()), c.kind);
                                } else {
                                    w.not("private_vars_leading_underscore", t, "consistent", c.kind);
                                }
                            }
                            Some(_) => {
                                if us {
                                    w.must("private_vars_leading_underscore", &[t], "public-with-underscore", c.kind);
                                } else {
                                    w.not("private_vars_leading_underscore", t, "consistent", c.kind);
                                }
                            }
                            // C06: "whose leading underscore contradicts its *declared* visibility" — nothing is declared
                            None => w.not("private_vars_leading_underscore", t, "no-declared-visibility", c.kind),
                        }
                    }
                }
                _ => {}
            }
        }
    }

    // ---------------- mutability detectors (C08)
    {
        let facts = std::mem::take(&mut w.out.facts);
        let weak_names: HashSet<&str> = facts.weak.iter().map(|x| x.0.as_str()).collect();
        let mut writes_by_name: HashMap<&str, Vec<&Write>> = HashMap::new();
        for wr in &facts.writes {
            writes_by_name.entry(wr.name.as_str()).or_default().push(wr);
        }
        // state variables of contracts
        let mut state: HashMap<&str, (&VarDecl, &Contract)> = HashMap::new();
        for it in &file.items {
            if let Item::Contract(c) = it {
                for p in &c.parts {
                    if let Part::Var(v) = p {
                        state.insert(v.name.as_str(), (v, c));
                    }
                }
            }
        }
        for (name, (v, c)) in &state {
            let t = w.tok(v.id);
            let is_const = v.attrs.contains(&"constant");
            let is_imm = v.attrs.contains(&"immutable");
            let elem = elementary(&v.ty);
            let ws = writes_by_name.get(name).cloned().unwrap_or_default();
            let weak = weak_names.contains(name);
            // constant_variables
            if is_const {
                w.dc("constant_variables", &[t], "already-constant", c.kind);
            } else if !ws.is_empty() {
                let first = ws[0];
                w.not("constant_variables", t, &format!("written:{}@{}", first.op, first.pos), c.kind);
            } else if elem.is_none() || weak {
                w.dc("constant_variables", &[t], if weak { "weakly-written" } else { "non-elementary" }, c.kind);
            } else {
                w.must("constant_variables", &[t], &format!("never-written:{}", if is_imm { "immutable" } else if v.init.is_some() { "initialised" } else { "plain" }), c.kind);
            }
            // immutable_variables
            if is_const || is_imm {
                // the statement speaks about suggesting variables assigned in a constructor; constants/immutables are never suggested
                w.not("immutable_variables", t, "already-constant-or-immutable", c.kind);
            } else {
                let ctor_plain: Vec<&&Write> = ws.iter().filter(|x| x.kind == "plain" && x.fn_kind == Some(FnKind::Constructor) && x.wh == Where::Body).collect();
                let ctor_plain_own: Vec<&&&Write> = ctor_plain.iter().filter(|x| x.contract == Some(c.id)).collect();
                let other_body_writes = ws.iter().any(|x| matches!(x.fn_kind, Some(FnKind::Function) | Some(FnKind::Modifier) | Some(FnKind::Fallback) | Some(FnKind::Receive)) && x.wh == Where::Body);
                let odd_position_writes = ws.iter().any(|x| x.wh != Where::Body || x.fn_kind.is_none());
                if other_body_writes {
                    w.not("immutable_variables", t, "written-in-non-constructor", c.kind);
                } else if ctor_plain.is_empty() && !odd_position_writes && !weak {
                    w.not("immutable_variables", t, "not-assigned-in-constructor", c.kind);
                } else if elem.map(value_typed) != Some(true) || weak || odd_position_writes || ctor_plain_own.is_empty() {
                    w.dc("immutable_variables", &[t], "doubtful", c.kind);
                } else {
                    // all constructor assignments must have a simple right-hand side
                    let simple = ctor_plain.iter().all(|x| !x.rhs_non_value) && ctor_plain.iter().all(|x| rhs_of(file, x.node).map(|r| !doubtful_rhs(r)).unwrap_or(false));
                    if simple {
                        w.must("immutable_variables", &[t], "assigned-in-constructor-only", c.kind);
                    } else {
                        w.dc("immutable_variables", &[t], "non-simple-rhs", c.kind);
                    }
                }
            }
        }
        // sstore: plain assignments
        for wr in facts.writes.iter().filter(|x| x.kind == "plain") {
            let t = w.tok(wr.node);
            match state.get(wr.name.as_str()) {
                Some((v, _)) => {
                    let is_const = v.attrs.contains(&"constant");
                    let is_imm = v.attrs.contains(&"immutable");
                    match (&v.ty.e, is_const || is_imm) {
                        (E::Type(_), false) => w.must("sstore", &[t], "v=e", &wr.pos),
                        (E::FnType { .. }, false) => w.dc("sstore", &[t], "function-typed", &wr.pos),
                        _ => w.not("sstore", t, "non-elementary-or-immutable-target", &wr.pos),
                    }
                }
                None => w.not("sstore", t, "local-or-unknown-target", &wr.pos),
            }
        }
        for wr in facts.writes.iter().filter(|x| x.kind != "plain") {
            if state.contains_key(wr.name.as_str()) {
                let t = w.tok(wr.node);
                w.not("sstore", t, "compound-or-incdec", &wr.pos);
            }
        }
        // memory_to_calldata
        for it in &file.items {
            let (funcs, in_contract): (Vec<&Func>, bool) = match it {
                Item::Contract(c) => (c.parts.iter().filter_map(|p| if let Part::Func(f) = p { Some(f) } else { None }).collect(), true),
                Item::Part(Part::Func(f)) => (vec![f], false),
                _ => continue,
            };
            for f in funcs {
                let params = match &f.params {
                    Some(p) => p,
                    None => continue,
                };
                for p in params {
                    if p.storage != Some("memory") {
                        continue;
                    }
                    let start = w.first(p.ty.id);
                    let kw = w.r.param_storage_tok.get(&p.ty.id).copied().unwrap_or(start);
                    let span: Vec<usize> = (start..=kw).collect();
                    let name = match &p.name {
                        Some(n) => n.as_str(),
                        None => {
                            w.dc("memory_to_calldata", &span, "unnamed", "param");
                            continue;
                        }
                    };
                    let fid = Some(f.id);
                    let direct_plain = facts.writes.iter().any(|x| x.name == name && x.fn_id == fid && x.kind == "plain" && x.wh == Where::Body);
                    let index_plain = facts.index1_plain.iter().any(|x| x.0 == name && x.1 == fid && x.2 == Where::Body);
                    let other_writes = facts.writes.iter().any(|x| x.name == name && x.fn_id == fid) || facts.weak.iter().any(|x| x.0 == name && x.2 == fid);
                    let vis = explicit_vis(f);
                    if f.kind == FnKind::Constructor {
                        w.not("memory_to_calldata", kw, "constructor-parameter", "param");
                    } else if f.body.is_none() {
                        w.not("memory_to_calldata", kw, "no-body", "param");
                    } else if direct_plain || index_plain {
                        w.not("memory_to_calldata", kw, if direct_plain { "assigned" } else { "element-assigned" }, "param");
                    } else if other_writes || f.kind != FnKind::Function || !in_contract || !matches!(vis, Some("public") | Some("external")) {
                        w.dc("memory_to_calldata", &span, "doubtful", "param");
                    } else {
                        w.must("memory_to_calldata", &span, "unwritten-memory-param", "param");
                    }
                }
            }
        }
        w.out.facts = facts;
    }

    // ---------------- unprotected_selfdestruct (C07)
    for it in &file.items {
        match it {
            Item::Contract(c) => {
                for p in &c.parts {
                    if let Part::Func(f) = p {
                        selfdestruct_spec(&mut w, f, true);
                    }
                }
            }
            Item::Part(Part::Func(f)) => selfdestruct_spec(&mut w, f, false),
            _ => {}
        }
    }

    // ---------------- version-gated detectors (C09)
    {
        let gate_known = version.is_some() && n_sol_pragmas == 1;
        let v = version.unwrap_or((0, 0, 0));
        let pre = v < (0, 8, 0);
        let ge084 = v >= (0, 8, 4);
        let mut sites_sm: Vec<(usize, String)> = vec![];
        let mut sites_sm_not: Vec<usize> = vec![];
        let mut req: Vec<(Vec<usize>, usize, bool, String)> = vec![]; // (alts, literal bytes, clean literal, form)
        let mut req_not: Vec<usize> = vec![];
        visit_all_exprs(file, &mut |e| {
            if let E::Call(f, args) = &e.e {
                if let E::Member(x, m) = &f.e {
                    let t = r.loc_tok_of(f.id).unwrap_or(usize::MAX);
                    let _ = x;
                    if m == "add" || m == "sub" || m == "mul" || m == "div" {
                        sites_sm.push((t, m.clone()));
                    } else if ["addr", "subtract", "mulDiv", "divide", "mod"].contains(&m.as_str()) {
                        sites_sm_not.push(t);
                    }
                }
                if is_var(f, "require") {
                    let call_tok = r.loc_tok_of(e.id).unwrap_or(usize::MAX);
                    match args.last().map(|a| &a.e) {
                        Some(E::Str(parts)) => {
                            let lit_tok = r.loc_tok_of(args.last().unwrap().id).unwrap_or(usize::MAX);
                            let plen = |p: &String| if p.starts_with("unicode") { p.len().saturating_sub(9) } else { p.len().saturating_sub(2) };
                            let first_len = plen(&parts[0]);
                            let total_len: usize = parts.iter().map(plen).sum();
                            let no_escapes = parts.iter().all(|p| !p.contains('\\'));
                            // several adjacent literals: decided only where measuring the first part and measuring the whole message agree
                            let agree = parts.len() == 1 || (first_len >= 32) == (total_len >= 32);
                            let clean = no_escapes && agree;
                            let content_len = first_len;
                            let form = if parts.len() == 1 { format!("len{}", content_len.min(40)) } else { format!("multi-part:first{}:total{}", first_len.min(40), total_len.min(80)) };
                            req.push((vec![lit_tok, call_tok], content_len, clean, form));
                        }
                        _ => req_not.push(call_tok),
                    }
                } else if matches!(&f.e, E::Var(n) if n == "assert" || n == "revertIf") {
                    if let Some(E::Str(_)) = args.last().map(|a| &a.e) {
                        req_not.push(r.loc_tok_of(args.last().unwrap().id).unwrap_or(usize::MAX));
                    }
                }
            }
        });
        for (t, m) in &sites_sm {
            for (d, on) in [("safe_math_pre_080", pre), ("safe_math_post_080", !pre)] {
                if !gate_known || uses_safemath_doubtful {
                    w.dc(d, &[*t], "version-or-using-unclear", "call");
                } else if uses_safemath_clear && on {
                    w.must(d, &[*t], &format!("x.{}()", m), "call");
                } else {
                    w.not(d, *t, if uses_safemath_clear { "gate-off" } else { "no-using-SafeMath" }, "call");
                }
            }
        }
        for t in &sites_sm_not {
            w.not("safe_math_pre_080", *t, "look-alike-member", "call");
            w.not("safe_math_post_080", *t, "look-alike-member", "call");
        }
        for (alts, len, clean, form) in &req {
            if !gate_known || !clean {
                w.dc("string_errors", alts, "version-unclear-or-odd-literal", "call");
                w.dc("short_revert_string", alts, "version-unclear-or-odd-literal", "call");
                continue;
            }
            if ge084 {
                w.must("string_errors", alts, form, "call");
            } else {
                w.not("string_errors", alts[0], "gate-off", "call");
            }
            if !ge084 && *len >= 32 {
                w.must("short_revert_string", alts, form, "call");
            } else {
                w.not("short_revert_string", alts[0], if ge084 { "gate-off" } else { "short-literal" }, "call");
            }
        }
        for t in &req_not {
            w.not("string_errors", *t, "no-trailing-string-literal", "call");
            w.not("short_revert_string", *t, "no-trailing-string-literal", "call");
        }
    }

    // pack_* are the subject of C10; everything is DONT_CARE here
    for it in &file.items {
        match it {
            Item::Contract(c) => {
                let t = w.tok(c.id);
                w.dc("pack_storage_variables", &[t], "see-C10", "file");
                for p in &c.parts {
                    if let Part::Struct(s) = p {
                        let t = w.tok(s.id);
                        w.dc("pack_struct_variables", &[t], "see-C10", "contract");
                    }
                }
            }
            Item::Part(Part::Struct(s)) => {
                let t = w.tok(s.id);
                w.dc("pack_struct_variables", &[t], "see-C10", "file");
            }
            _ => {}
        }
    }
    w.out
}

fn walk_part(w: &mut W, p: &Part, c: Option<&Contract>) {
    let base = Cx { contract: c, func: None, wh: Where::TypePos, unchecked: false, for_cond: false, pos: String::new() };
    match p {
        Part::Var(v) => {
            let mut cx = base.clone();
            cx.pos = "StateVariable.type".into();
            w.expr(&v.ty, &cx);
            if let Some(i) = &v.init {
                let mut cx = base.clone();
                cx.wh = Where::Initializer;
                cx.pos = "StateVariable.initializer".into();
                w.expr(i, &cx);
            }
        }
        Part::Func(f) => {
            let mut cx = base.clone();
            cx.func = Some(f);
            cx.wh = Where::FnParam;
            cx.pos = "FunctionDefinition.param-type".into();
            if let Some(ps) = &f.params {
                for p in ps {
                    w.expr(&p.ty, &cx);
                }
            }
            for a in &f.attrs {
                if let FAttr::Modifier(_, Some(args)) = a {
                    let mut cx2 = cx.clone();
                    cx2.wh = Where::FnAttr;
                    cx2.pos = if f.kind == FnKind::Constructor { "FunctionDefinition.base-or-modifier-arg(constructor)".into() } else { "FunctionDefinition.modifier-arg".into() };
                    for x in args {
                        w.expr(x, &cx2);
                    }
                }
            }
            if let Some(rs) = &f.returns {
                let mut cx2 = cx.clone();
                cx2.pos = "FunctionDefinition.return-type".into();
                for p in rs {
                    w.expr(&p.ty, &cx2);
                }
            }
            if let Some(b) = &f.body {
                let mut cx2 = cx.clone();
                cx2.wh = Where::Body;
                cx2.pos = "FunctionDefinition.body".into();
                w.stmt(b, &cx2);
            }
        }
        Part::Struct(s) => {
            let mut cx = base.clone();
            cx.pos = "StructDefinition.field-type".into();
            for (t, _, _) in &s.fields {
                w.expr(t, &cx);
            }
        }
        Part::Event(_, _, fields, _) => {
            let mut cx = base.clone();
            cx.pos = "EventDefinition.field-type".into();
            for (t, _, _) in fields {
                w.expr(t, &cx);
            }
        }
        Part::Error(_, _, fields) => {
            let mut cx = base.clone();
            cx.pos = "ErrorDefinition.field-type".into();
            for (t, _) in fields {
                w.expr(t, &cx);
            }
        }
        Part::Using(_, _, _, ty, _) => {
            if let Some(t) = ty {
                let mut cx = base.clone();
                cx.pos = "Using.type".into();
                w.expr(t, &cx);
            }
        }
        Part::TypeDef(_, _, t) => {
            let mut cx = base.clone();
            cx.pos = "TypeDefinition.type".into();
            w.expr(t, &cx);
        }
        Part::Enum(..) | Part::Stray(_) => {}
    }
}

pub fn visit_all_exprs<'a>(file: &'a File, f: &mut dyn FnMut(&'a Ex)) {
    fn part<'a>(p: &'a Part, f: &mut dyn FnMut(&'a Ex)) {
        match p {
            Part::Var(v) => {
                crate::prog::walk_expr(&v.ty, f);
                if let Some(i) = &v.init {
                    crate::prog::walk_expr(i, f);
                }
            }
            Part::Func(func) => {
                if let Some(ps) = &func.params {
                    for p in ps {
                        crate::prog::walk_expr(&p.ty, f);
                    }
                }
                for a in &func.attrs {
                    if let FAttr::Modifier(_, Some(args)) = a {
                        for x in args {
                            crate::prog::walk_expr(x, f);
                        }
                    }
                }
                if let Some(rs) = &func.returns {
                    for p in rs {
                        crate::prog::walk_expr(&p.ty, f);
                    }
                }
                if let Some(b) = &func.body {
                    crate::prog::walk_stmt(b, &mut |_| {}, f);
                }
            }
            Part::Struct(s) => {
                for (t, _, _) in &s.fields {
                    crate::prog::walk_expr(t, f);
                }
            }
            Part::Event(_, _, fields, _) => {
                for (t, _, _) in fields {
                    crate::prog::walk_expr(t, f);
                }
            }
            Part::Error(_, _, fields) => {
                for (t, _) in fields {
                    crate::prog::walk_expr(t, f);
                }
            }
            Part::Using(_, _, _, Some(t), _) => crate::prog::walk_expr(t, f),
            Part::TypeDef(_, _, t) => crate::prog::walk_expr(t, f),
            _ => {}
        }
    }
    for it in &file.items {
        match it {
            Item::Contract(c) => {
                for (_, args) in &c.bases {
                    if let Some(a) = args {
                        for x in a {
                            crate::prog::walk_expr(x, f);
                        }
                    }
                }
                for p in &c.parts {
                    part(p, f);
                }
            }
            Item::Part(p) => part(p, f),
            _ => {}
        }
    }
}

/// right-hand side of the assignment node with the given id
fn rhs_of(file: &File, node: Id) -> Option<&Ex> {
    let mut found: Option<&Ex> = None;
    visit_all_exprs(file, &mut |e| {
        if e.id == node {
            if let E::Bin(_, _, b) = &e.e {
                found = Some(b);
            }
        }
    });
    found
}

fn selfdestruct_spec(w: &mut W, f: &Func, in_contract: bool) {
    let body = match &f.body {
        Some(b) => b,
        None => return,
    };
    // collect selfdestruct calls and msg.sender mention classes in the body
    let mut sd_calls: Vec<&Ex> = vec![];
    // classes: 'A' inside selfdestruct args, 'B' operand of type conversion, 'C' guard, 'D' other
    let mut classes: Vec<char> = vec![];
    fn is_sd(e: &Ex) -> bool {
        matches!(&e.e, E::Call(f, _) if matches!(&f.e, E::Var(n) if n == "selfdestruct" || n == "suicide"))
    }
    // recursive walk with parent info
    fn walk<'a>(e: &'a Ex, parent: Option<&'a Ex>, grand: Option<&'a Ex>, in_sd_args: bool, sd: &mut Vec<&'a Ex>, classes: &mut Vec<char>) {
        if is_sd(e) {
            sd.push(e);
        }
        if is_msg_sender(e) {
            // classify
            let direct_arg_of = |p: &Ex| -> Option<char> {
                match &p.e {
                    E::Call(f, args) if args.iter().any(|a| std::ptr::eq(a, e)) => {
                        if matches!(&f.e, E::Type(_)) {
                            Some('B')
                        } else if is_sd(p) {
                            Some('A')
                        } else {
                            Some('C')
                        }
                    }
                    _ => None,
                }
            };
            let mut cls = 'D';
            if let Some(p) = parent {
                if let Some(c) = direct_arg_of(p) {
                    cls = c;
                } else if let E::Bin(op, l, _) = &p.e {
                    if (*op == BinOp::Eq || *op == BinOp::Ne) && std::ptr::eq(&**l, e) {
                        // left operand of ==/!= ; is that comparison a direct argument of a call?
                        if let Some(g) = grand {
                            if let E::Call(f, args) = &g.e {
                                if args.iter().any(|a| std::ptr::eq(a, p)) && !matches!(&f.e, E::Type(_)) && !is_sd(g) {
                                    cls = 'C';
                                }
                            }
                        }
                    }
                }
            }
            if cls == 'D' && in_sd_args {
                cls = 'A';
            } else if cls == 'C' && in_sd_args {
                // a guard-shaped mention nested inside selfdestruct's own arguments: statement and code read differently
                cls = 'D';
            }
            classes.push(cls);
            return;
        }
        let in_args = in_sd_args;
        let mut kid = |k: &'a Ex, in_sd: bool, sd: &mut Vec<&'a Ex>, classes: &mut Vec<char>| walk(k, Some(e), parent, in_sd, sd, classes);
        match &e.e {
            E::Bin(_, a, b) => {
                kid(a, in_args, sd, classes);
                kid(b, in_args, sd, classes);
            }
            E::Un(_, a) | E::PostInc(a) | E::PostDec(a) | E::Paren(a) | E::Member(a, _) | E::Unit(a, _) => kid(a, in_args, sd, classes),
            E::Ternary(c, a, b) => {
                kid(c, in_args, sd, classes);
                kid(a, in_args, sd, classes);
                kid(b, in_args, sd, classes);
            }
            E::Call(f, args) => {
                kid(f, in_args, sd, classes);
                let sdc = is_sd(e);
                for a in args {
                    kid(a, in_args || sdc, sd, classes);
                }
            }
            E::NamedCall(f, args) | E::CallBlock(f, args, _) => {
                kid(f, in_args, sd, classes);
                for (_, a) in args {
                    kid(a, in_args, sd, classes);
                }
            }
            E::Index(a, i) => {
                kid(a, in_args, sd, classes);
                if let Some(i) = i {
                    kid(i, in_args, sd, classes);
                }
            }
            E::Slice(a, l, h) => {
                kid(a, in_args, sd, classes);
                if let Some(l) = l {
                    kid(l, in_args, sd, classes);
                }
                if let Some(h) = h {
                    kid(h, in_args, sd, classes);
                }
            }
            E::ArrayLit(es) => {
                for a in es {
                    kid(a, in_args, sd, classes);
                }
            }
            E::List(slots) => {
                for s in slots.iter().flatten() {
                    kid(&s.ty, in_args, sd, classes);
                }
            }
            E::Mapping(k, v) => {
                kid(k, in_args, sd, classes);
                kid(v, in_args, sd, classes);
            }
            _ => {}
        }
    }
    let mut tops: Vec<&Ex> = vec![];
    // collect top-level expressions of the body (each statement's expression slots)
    fn tops_of<'a>(s: &'a St, out: &mut Vec<&'a Ex>) {
        match &s.s {
            S::Expr(e) | S::Emit(e) => out.push(e),
            S::VarDef { ty, init, .. } => {
                out.push(ty);
                if let Some(i) = init {
                    out.push(i);
                }
            }
            S::Block { stmts, .. } => {
                for x in stmts {
                    tops_of(x, out);
                }
            }
            S::If(c, a, b) => {
                out.push(c);
                tops_of(a, out);
                if let Some(b) = b {
                    tops_of(b, out);
                }
            }
            S::While(c, b) => {
                out.push(c);
                tops_of(b, out);
            }
            S::DoWhile(b, c) => {
                tops_of(b, out);
                out.push(c);
            }
            S::For { init, cond, next, body } => {
                if let Some(i) = init {
                    tops_of(i, out);
                }
                if let Some(c) = cond {
                    out.push(c);
                }
                if let Some(n) = next {
                    tops_of(n, out);
                }
                if let Some(b) = body {
                    tops_of(b, out);
                }
            }
            S::Return(Some(e)) => out.push(e),
            S::Revert(_, args) => out.extend(args.iter()),
            S::RevertNamed(_, args) => out.extend(args.iter().map(|a| &a.1)),
            S::Try { expr, returns, catches } => {
                out.push(expr);
                if let Some((ps, b)) = returns {
                    out.extend(ps.iter().map(|p| &p.ty));
                    tops_of(b, out);
                }
                for c in catches {
                    match c {
                        Catch::Simple(p, b) => {
                            if let Some(p) = p {
                                out.push(&p.ty);
                            }
                            tops_of(b, out);
                        }
                        Catch::Named(_, p, b) => {
                            out.push(&p.ty);
                            tops_of(b, out);
                        }
                    }
                }
            }
            _ => {}
        }
    }
    tops_of(body, &mut tops);
    // event arguments: `emit E(msg.sender)` passes msg.sender to an event, which the statement does not call a check
    let mut emit_exprs: Vec<*const Ex> = vec![];
    crate::prog::walk_stmt(body, &mut |st| {
        if let S::Emit(e) = &st.s {
            emit_exprs.push(e as *const Ex);
        }
    }, &mut |_| {});
    for t in tops {
        let before = classes.len();
        walk(t, None, None, false, &mut sd_calls, &mut classes);
        if emit_exprs.contains(&(t as *const Ex)) {
            for c in classes[before..].iter_mut() {
                if *c == 'C' {
                    *c = 'D';
                }
            }
        }
    }
    if sd_calls.is_empty() {
        return;
    }
    // msg.sender mentioned in the attributes (modifier arguments)?
    let mut in_attrs = false;
    for a in &f.attrs {
        if let FAttr::Modifier(_, Some(args)) = a {
            for x in args {
                crate::prog::walk_expr(x, &mut |e| {
                    if is_msg_sender(e) {
                        in_attrs = true;
                    }
                });
            }
        }
    }
    let vis = explicit_vis(f);
    let mods: Vec<&String> = f.attrs.iter().filter_map(|a| if let FAttr::Modifier(n, _) = a { Some(n) } else { None }).collect();
    let only = mods.iter().any(|m| m.contains("only"));
    let only_ci = mods.iter().any(|m| m.to_lowercase().contains("only"));
    let any_c = classes.contains(&'C');
    let any_d = classes.contains(&'D');
    for sd in sd_calls {
        let t = w.tok(sd.id);
        let ctx = format!("{:?}/{}", f.kind, vis.unwrap_or("none"));
        if f.kind == FnKind::Constructor {
            w.not("unprotected_selfdestruct", t, "in-constructor", &ctx);
        } else if !in_contract || f.kind == FnKind::Modifier {
            w.dc("unprotected_selfdestruct", &[t], "modifier-or-free-function", &ctx);
        } else if matches!(vis, Some("internal") | Some("private")) {
            w.not("unprotected_selfdestruct", t, "internal-or-private", &ctx);
        } else if vis.is_none() {
            w.dc("unprotected_selfdestruct", &[t], "no-visibility", &ctx);
        } else if only {
            w.not("unprotected_selfdestruct", t, "only-modifier", &ctx);
        } else if any_c {
            w.not("unprotected_selfdestruct", t, "msg.sender-check-passed-to-call", &ctx);
        } else if only_ci || any_d || in_attrs {
            w.dc("unprotected_selfdestruct", &[t], "doubtful-protection", &ctx);
        } else {
            let form = if classes.is_empty() { "no-msg.sender" } else if classes.iter().all(|c| *c == 'A') { "sender-only-in-selfdestruct-args" } else { "sender-only-in-conversion" };
            w.must("unprotected_selfdestruct", &[t], form, &ctx);
        }
    }
}
