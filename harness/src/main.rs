mod common;
mod corpus;
mod deep;
mod degen;
mod dets;
mod dtree;
mod gast;
mod gen;
mod layout;
mod mon;
mod prog;
mod progsrc;
mod report;
mod spec;

use common::*;
use std::time::Instant;

fn usage() -> ! {
    eprintln!("usage: vmon <C01..C19> [--tier quick|thorough] [--replay <file>]\n       vmon worker <kind> ...");
    std::process::exit(3);
}

fn main() {
    let args: Vec<String> = std::env::args().collect();
    if args.len() < 2 {
        usage();
    }
    install_silent_panic_hook();
    if args[1] == "lex" {
        let t = std::fs::read_to_string(&args[2]).unwrap();
        let mut comments = vec![];
        for item in solang_parser::lexer::Lexer::new(&t, 0, &mut comments) {
            println!("{:?}", item);
        }
        println!("parse: {:?}", solang_parser::parse(&t, 0).map(|_| ()));
        return;
    }
    if args[1] == "cover" {
        let pool = mon::tree::pool();
        for (n, d) in dets::ALL.iter() {
            let hits: Vec<&str> = pool.progs.iter().filter(|(_, t)| !d.lines(t, 0).is_empty()).map(|(n, _)| n.as_str()).take(3).collect();
            println!("{:32} {:?}", n, hits);
        }
        return;
    }
    if args[1] == "worker" {
        common::exit_when_parent_dies();
        std::process::exit(mon::worker::main(&args[2..]));
    }
    let prop_arg = args[1].to_uppercase();
    let mut tier = match std::env::var("VERIF_TIER").ok().as_deref() {
        Some("thorough") => Tier::Thorough,
        _ => Tier::Quick,
    };
    let mut seed: u64 = std::env::var("VERIF_SEED").ok().and_then(|s| s.trim().parse::<i64>().ok()).map(|v| v as u64).unwrap_or(1);
    let mut replay = None;
    let mut i = 2;
    while i < args.len() {
        match args[i].as_str() {
            "--tier" => {
                i += 1;
                tier = match args.get(i).map(|s| s.as_str()) {
                    Some("quick") => Tier::Quick,
                    Some("thorough") => Tier::Thorough,
                    _ => usage(),
                };
            }
            "--replay" => {
                i += 1;
                let p = args.get(i).cloned().unwrap_or_else(|| usage());
                let s = std::fs::read_to_string(&p).expect("cannot read replay file");
                let j: serde_json::Value = serde_json::from_str(&s).expect("replay file is not JSON");
                seed = j["seed"].as_u64().unwrap_or(seed);
                tier = if j["tier"].as_str() == Some("thorough") { Tier::Thorough } else { Tier::Quick };
                replay = Some((j["workload"].as_str().unwrap_or("").to_string(), j["k"].as_u64().unwrap_or(0)));
            }
            _ => usage(),
        }
        i += 1;
    }
    let threads = std::env::var("VERIF_THREADS").ok().and_then(|s| s.parse().ok()).unwrap_or(16usize);
    let prop: &'static str = match mon::PROPS.iter().find(|p| **p == prop_arg) {
        Some(p) => p,
        None => usage(),
    };
    let ctx = Ctx { prop, seed, tier, replay, threads, start: Instant::now() };
    {
        let limit: u64 = std::env::var("VMON_WATCHDOG_S").ok().and_then(|s| s.parse().ok()).unwrap_or(match tier {
            Tier::Quick => 1200,
            Tier::Thorough => 6 * 3600,
        });
        let p = prop;
        std::thread::spawn(move || {
            std::thread::sleep(std::time::Duration::from_secs(limit));
            println!("INCONCLUSIVE property={} reason=watchdog: the run did not finish within {} s (a detector may not terminate on some input; wall clock is not a verdict)", p, limit);
            common::kill_descendants();
            std::process::exit(2);
        });
    }
    let code = mon::run(&ctx);
    common::kill_descendants();
    std::process::exit(code);
}
