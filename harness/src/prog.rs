//! Generated program = G-AST + rendering + a laid-out text; plus the generator self-check
//! ("monitoring the monitor"): the parser's tree must have exactly the structure and the
//! locations predicted from the G-AST, otherwise the case is discarded as a harness error.
use crate::dtree;
use crate::gast::*;
use crate::layout::Laid;

pub struct SelfCheck {
    pub ok: bool,
    pub why: String,
}

fn first_loc_start(t: &dtree::GTree, g: usize) -> Option<usize> {
    let n = &t.nodes[g];
    if n.style == dtree::Style::Paren && n.name == "File" && n.children.len() == 3 {
        return t.text(n.children[1].1).parse::<usize>().ok();
    }
    for (_, c) in &n.children {
        if let Some(v) = first_loc_start(t, *c) {
            return Some(v);
        }
    }
    None
}

/// Compare the parser's view of `laid.text` with the prediction from the rendering.
pub fn selfcheck(r: &Rendered, laid: &Laid) -> SelfCheck {
    let su = match solang_parser::parse(&laid.text, 0) {
        Ok((su, _)) => su,
        Err(e) => {
            return SelfCheck { ok: false, why: format!("does-not-parse: {:?}", e.iter().take(1).collect::<Vec<_>>()) };
        }
    };
    let dbg = format!("{:?}", su);
    let tree = match dtree::parse(&dbg) {
        Ok(t) => t,
        Err(e) => return SelfCheck { ok: false, why: format!("debug-tree: {}", e) },
    };
    let pts = tree.pt_nodes();
    if pts.len() != r.nodes.len() {
        // find first divergence for the message
        let mut i = 0;
        while i < pts.len() && i < r.nodes.len() && pts[i].kind == r.nodes[i].kind {
            i += 1;
        }
        return SelfCheck {
            ok: false,
            why: format!(
                "node-count parser={} predicted={} first-divergence@{} parser={:?} predicted={:?}",
                pts.len(),
                r.nodes.len(),
                i,
                pts.get(i).map(|p| p.kind.clone()),
                r.nodes.get(i).map(|n| n.kind)
            ),
        };
    }
    for (i, (p, n)) in pts.iter().zip(r.nodes.iter()).enumerate() {
        if p.kind != n.kind {
            return SelfCheck { ok: false, why: format!("kind@{} parser={} predicted={}", i, p.kind, n.kind) };
        }
        if n.kind == "ImportDirective" || n.kind == "SourceUnit" {
            continue;
        }
        if let Some(start) = first_loc_start(&tree, p.g) {
            let exp = laid.off.get(n.loc_tok).copied().unwrap_or(usize::MAX);
            if start != exp {
                return SelfCheck { ok: false, why: format!("loc@{} kind={} parser={} predicted={}", i, n.kind, start, exp) };
            }
        }
    }
    SelfCheck { ok: true, why: String::new() }
}

// ---------------------------------------------------------------- traversal helpers over the G-AST

/// Visit every expression node (pre-order) with its ancestors chain depth-first.
pub fn walk_expr<'a>(e: &'a Ex, f: &mut dyn FnMut(&'a Ex)) {
    f(e);
    match &e.e {
        E::Bin(_, a, b) => {
            walk_expr(a, f);
            walk_expr(b, f);
        }
        E::Un(_, a) | E::PostInc(a) | E::PostDec(a) | E::Paren(a) | E::Member(a, _) | E::Unit(a, _) => walk_expr(a, f),
        E::Ternary(c, a, b) => {
            walk_expr(c, f);
            walk_expr(a, f);
            walk_expr(b, f);
        }
        E::Call(g, args) => {
            walk_expr(g, f);
            for a in args {
                walk_expr(a, f);
            }
        }
        E::NamedCall(g, args) | E::CallBlock(g, args, _) => {
            walk_expr(g, f);
            for (_, a) in args {
                walk_expr(a, f);
            }
        }
        E::Index(a, i) => {
            walk_expr(a, f);
            if let Some(i) = i {
                walk_expr(i, f);
            }
        }
        E::Slice(a, l, h) => {
            walk_expr(a, f);
            if let Some(l) = l {
                walk_expr(l, f);
            }
            if let Some(h) = h {
                walk_expr(h, f);
            }
        }
        E::ArrayLit(es) => {
            for a in es {
                walk_expr(a, f);
            }
        }
        E::List(slots) => {
            for s in slots.iter().flatten() {
                walk_expr(&s.ty, f);
            }
        }
        E::Mapping(k, v) => {
            walk_expr(k, f);
            walk_expr(v, f);
        }
        E::FnType { params, returns, .. } => {
            for p in params {
                walk_expr(&p.ty, f);
            }
            if let Some(rs) = returns {
                for p in rs {
                    walk_expr(&p.ty, f);
                }
            }
        }
        _ => {}
    }
}

/// Visit all expressions of a statement subtree; `on_stmt` is called for every statement first.
pub fn walk_stmt<'a>(s: &'a St, on_stmt: &mut dyn FnMut(&'a St), on_expr: &mut dyn FnMut(&'a Ex)) {
    on_stmt(s);
    match &s.s {
        S::Expr(e) | S::Emit(e) => walk_expr(e, on_expr),
        S::VarDef { ty, init, .. } => {
            walk_expr(ty, on_expr);
            if let Some(i) = init {
                walk_expr(i, on_expr);
            }
        }
        S::Block { stmts, .. } => {
            for x in stmts {
                walk_stmt(x, on_stmt, on_expr);
            }
        }
        S::If(c, a, b) => {
            walk_expr(c, on_expr);
            walk_stmt(a, on_stmt, on_expr);
            if let Some(b) = b {
                walk_stmt(b, on_stmt, on_expr);
            }
        }
        S::While(c, b) => {
            walk_expr(c, on_expr);
            walk_stmt(b, on_stmt, on_expr);
        }
        S::DoWhile(b, c) => {
            walk_stmt(b, on_stmt, on_expr);
            walk_expr(c, on_expr);
        }
        S::For { init, cond, next, body } => {
            if let Some(i) = init {
                walk_stmt(i, on_stmt, on_expr);
            }
            if let Some(c) = cond {
                walk_expr(c, on_expr);
            }
            if let Some(n) = next {
                walk_stmt(n, on_stmt, on_expr);
            }
            if let Some(b) = body {
                walk_stmt(b, on_stmt, on_expr);
            }
        }
        S::Return(e) => {
            if let Some(e) = e {
                walk_expr(e, on_expr);
            }
        }
        S::Revert(_, args) => {
            for a in args {
                walk_expr(a, on_expr);
            }
        }
        S::RevertNamed(_, args) => {
            for (_, a) in args {
                walk_expr(a, on_expr);
            }
        }
        S::Try { expr, returns, catches } => {
            walk_expr(expr, on_expr);
            if let Some((ps, b)) = returns {
                for p in ps {
                    walk_expr(&p.ty, on_expr);
                }
                walk_stmt(b, on_stmt, on_expr);
            }
            for c in catches {
                match c {
                    Catch::Simple(p, b) => {
                        if let Some(p) = p {
                            walk_expr(&p.ty, on_expr);
                        }
                        walk_stmt(b, on_stmt, on_expr);
                    }
                    Catch::Named(_, p, b) => {
                        walk_expr(&p.ty, on_expr);
                        walk_stmt(b, on_stmt, on_expr);
                    }
                }
            }
        }
        S::Break | S::Continue | S::Assembly(_) => {}
    }
}
