//! Program sources shared by several monitors: generated programs (with self-check) and
//! corpus programs re-tokenised by solang's lexer, both as token lists that the layout
//! engine can re-lay.
use crate::common::*;
use crate::corpus::Prog;
use crate::gast::{self, Tok};
use crate::gen::{Builder, Cfg};
use crate::layout::{self, Laid, Layout};

pub struct TokProg {
    pub name: String,
    pub toks: Vec<Tok>,
    /// present for generated programs
    pub rendered: Option<gast::Rendered>,
    pub file: Option<gast::File>,
}

/// Generate program k (deterministic in rng). None if the generator self-check fails.
pub fn generated(k: u64, rng: &Rng, cfg: Cfg, acc: &mut Acc) -> Option<TokProg> {
    let mut b = Builder::new(rng, cfg);
    let f = b.file();
    drop(b);
    let r = gast::render(&f);
    let r0 = Rng::new(0, "selfcheck", k);
    let (laid, _) = layout::lay(&r.toks, Layout::Pretty, &r0);
    let sc = crate::prog::selfcheck(&r, &laid);
    if !sc.ok {
        acc.discards += 1;
        acc.cov("discard:generator-selfcheck");
        return None;
    }
    acc.cov("programs:generated");
    Some(TokProg { name: format!("gen#{}", k), toks: r.toks.clone(), rendered: Some(r), file: Some(f) })
}

pub fn from_corpus(p: &Prog, acc: &mut Acc) -> Option<TokProg> {
    match layout::lex(&p.text) {
        Some(toks) if !toks.is_empty() => {
            acc.cov("programs:corpus");
            Some(TokProg { name: p.name.clone(), toks, rendered: None, file: None })
        }
        _ => {
            acc.discards += 1;
            acc.cov("discard:corpus-lex");
            None
        }
    }
}

/// Lay the tokens out and make sure the lexer sees the same tokens again and the parser accepts.
pub fn lay_checked(tp: &TokProg, l: Layout, rng: &Rng, acc: &mut Acc) -> Option<Laid> {
    let (laid, kinds) = layout::lay(&tp.toks, l, rng);
    match layout::lex_texts(&laid.text) {
        Some(ts) if ts.len() == tp.toks.len() && ts.iter().zip(tp.toks.iter()).all(|(a, b)| *a == b.s) => {}
        _ => {
            acc.discards += 1;
            acc.cov("discard:layout-lexer-roundtrip");
            if std::env::var("VMON_DEBUG_DISCARDS").is_ok() {
                eprintln!("ROUNDTRIP {} {}\n{}\n", tp.name, l.name(), laid.text);
            }
            return None;
        }
    }
    if !crate::dets::parses(&laid.text) {
        acc.discards += 1;
        acc.cov("discard:layout-does-not-parse");
        return None;
    }
    for k in kinds {
        acc.cov(&format!("gap:{}", k));
    }
    acc.cov(&format!("layout:{}", l.name()));
    Some(laid)
}

/// Token-level mutation of a corpus program: operator swaps and literal inflation; the result
/// is kept only if it still parses.
pub fn mutate(tp: &TokProg, rng: &Rng) -> Option<TokProg> {
    let mut toks = tp.toks.clone();
    let n = rng.range(1, 4);
    for _ in 0..n {
        let i = rng.below(toks.len());
        let s = toks[i].s.clone();
        let new: Option<&str> = match s.as_str() {
            "+" => Some(rng.ps(&["-", "*", "/", "**", "%"])),
            "-" => Some(rng.ps(&["+", "*", "/"])),
            "*" => Some(rng.ps(&["/", "**", "+"])),
            "/" => Some(rng.ps(&["*", "%"])),
            "<" => Some(rng.ps(&["<=", ">", ">="])),
            ">" => Some(rng.ps(&[">=", "<", "<="])),
            "<=" => Some("<"),
            ">=" => Some(">"),
            "==" => Some("!="),
            "!=" => Some("=="),
            "&&" => Some("||"),
            "||" => Some("&&"),
            "+=" => Some(rng.ps(&["-=", "*=", "/=", "="])),
            "=" => Some(rng.ps(&["+=", "/=", "|="])),
            "public" => Some(rng.ps(&["external", "internal", "private"])),
            "external" => Some(rng.ps(&["public", "internal"])),
            "internal" => Some(rng.ps(&["public", "private"])),
            "private" => Some(rng.ps(&["public", "internal"])),
            "memory" => Some(rng.ps(&["calldata", "storage"])),
            "calldata" => Some("memory"),
            "0" => Some(rng.ps(&["1", "2", "4294967296"])),
            "1" => Some(rng.ps(&["0", "2", "1e18"])),
            "2" => Some(rng.ps(&["3", "4", "8"])),
            "transfer" => Some(rng.ps(&["safeTransfer", "transferFrom", "approve"])),
            "true" => Some("false"),
            "false" => Some("true"),
            "++" => Some("--"),
            "--" => Some("++"),
            _ => None,
        };
        if let Some(n) = new {
            if !toks[i].ws_only_before {
                toks[i].s = n.to_string();
            }
        }
    }
    let r0 = Rng::from_seed(7);
    let (laid, _) = layout::lay(&toks, Layout::Pretty, &r0);
    if crate::dets::parses(&laid.text) {
        // re-lex so that token boundaries are the lexer's (e.g. `1e18`)
        let toks = layout::lex(&laid.text)?;
        Some(TokProg { name: format!("{}~mut", tp.name), toks, rendered: None, file: None })
    } else {
        None
    }
}
