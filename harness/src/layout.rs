//! Layout engine: token list -> text, with the byte offset and 1-based line of every token.
use crate::common::Rng;
use crate::gast::Tok;

#[derive(Clone, Copy, PartialEq, Eq, Debug)]
pub enum Layout {
    /// token i on line i+1 (LF only, no comments)
    OneTokenPerLine,
    /// everything on one line, single spaces, no final newline
    SingleLine,
    /// like SingleLine but newline-terminated: exactly as many bytes as OneTokenPerLine
    SingleLineNl,
    /// single spaces, tokens glued where safe, final newline
    Compact,
    /// like `Pretty` but CRLF line ends
    Crlf,
    /// newline after ; { }  — final newline present
    Pretty,
    /// Pretty without the final newline
    NoFinalNewline,
    /// random gaps: spaces, tabs, LF, CRLF, lone CR, blank lines, multi-byte white space, comments with code-like bodies
    Random,
    /// Random, preceded by blank lines, a multi-byte comment and multi-byte white space
    RandomWithPrefix,
    /// one token per line behind 70 000 empty lines: every line number is above 2^16
    TallPrefix,
}

pub const NAMED: [Layout; 9] = [
    Layout::OneTokenPerLine, Layout::SingleLineNl, Layout::SingleLine, Layout::Compact, Layout::Crlf, Layout::Pretty, Layout::NoFinalNewline,
    Layout::Random, Layout::RandomWithPrefix,
];

impl Layout {
    pub fn name(&self) -> &'static str {
        match self {
            Layout::OneTokenPerLine => "one_token_per_line",
            Layout::SingleLine => "single_line",
            Layout::SingleLineNl => "single_line_final_newline",
            Layout::Compact => "compact",
            Layout::Crlf => "crlf",
            Layout::Pretty => "pretty",
            Layout::NoFinalNewline => "no_final_newline",
            Layout::Random => "random",
            Layout::RandomWithPrefix => "random_with_prefix",
            Layout::TallPrefix => "tall_prefix",
        }
    }
}

pub struct Laid {
    pub text: String,
    pub off: Vec<usize>,
    pub line: Vec<i32>,
}

fn is_glue_punct(s: &str) -> bool {
    matches!(s, "(" | ")" | "[" | "]" | "{" | "}" | "," | ";")
}

const CODE_LIKE: [&str; 12] = [
    "x++; require(a && b, \"s\");",
    "selfdestruct(msg.sender);",
    "pragma solidity ^0.4.0;",
    "a <= b ? a * 2 : b / 4",
    "token.transfer(to, amount);",
    "for (uint i = 0; i < arr.length; i++) {}",
    "if (flag == true) { owner = address(0); }",
    "é ü 合约 keccak256(abi.encodePacked(x))",
    "using SafeMath for uint256; x.add(y)",
    "function f() public {} constructor() {}",
    "uint8 a; uint256 b; uint8 c;",
    "require(x > 0, \"this is a revert string that is longer than thirty two bytes\");",
];

const MB_WS: [&str; 8] = ["\u{00A0}", "\u{2003}", "\u{3000}", "\u{2028}", "\u{2029}", "\u{0085}", "\u{000B}", "\u{000C}"];

fn random_gap(rng: &Rng, ws_only: bool, must_separate: bool, out: &mut String, kinds: &mut Vec<&'static str>) {
    let n = if must_separate { rng.range(1, 3) } else { rng.range(0, 2) };
    let mut wrote = false;
    for _ in 0..n {
        let k = if ws_only {
            // inside a pragma: white space, or a comment without `;` (the lexer takes everything up to the `;` as the value)
            if rng.chance(1, 5) { 14 + rng.below(2) } else { rng.below(8) }
        } else {
            rng.below(14)
        };
        match k {
            14 => {
                out.push_str(rng.ps(&["/* ^9.9.9 */", "/* 0.4.0 */", "/* é */", "/* >=0.1.0 <0.2.0 */", "/**/", "/* a */", "/** ^1.2.3 */", "/* a * b ^0.0.1 **/", "/* 0.8.* ^ */", "/*/ ^0.7.0 */", "/* // ^0.3.0 */", "/***\n * ^0.2.0\n ***/"]));
                kinds.push("block-comment-inside-pragma");
            }
            15 => {
                out.push_str(rng.ps(&["// ^0.1.2\n", "// 0.3.3\r\n", "// plain\n", "// sources: contracts/*.sol ^0.1.0\n", "// */ ^0.0.9\n"]));
                kinds.push("line-comment-inside-pragma");
            }
            0 | 1 | 2 => {
                out.push(' ');
                kinds.push("space");
            }
            3 => {
                out.push('\t');
                kinds.push("tab");
            }
            4 => {
                out.push('\n');
                kinds.push("lf");
            }
            5 => {
                out.push_str("\r\n");
                kinds.push("crlf");
            }
            6 => {
                out.push('\r');
                kinds.push("cr");
            }
            7 => {
                out.push_str(rng.ps(&MB_WS));
                kinds.push("multibyte-ws");
            }
            8 => {
                out.push_str("\n\n");
                kinds.push("blank-line");
            }
            9 | 10 => {
                out.push_str("/* ");
                out.push_str(rng.ps(&CODE_LIKE));
                if rng.chance(1, 3) {
                    out.push_str("\n * ");
                    out.push_str(rng.ps(&CODE_LIKE));
                    out.push('\n');
                }
                out.push_str(" */");
                kinds.push("block-comment");
            }
            11 => {
                out.push_str("/** ");
                out.push_str(rng.ps(&CODE_LIKE));
                out.push_str(" */");
                kinds.push("doc-block-comment");
            }
            12 => {
                out.push_str("// ");
                out.push_str(rng.ps(&CODE_LIKE));
                out.push_str(if rng.chance(1, 4) { "\r\n" } else { "\n" });
                kinds.push("line-comment");
            }
            _ => {
                out.push_str("/// ");
                out.push_str(rng.ps(&CODE_LIKE));
                out.push('\n');
                kinds.push("doc-line-comment");
            }
        }
        wrote = true;
    }
    if must_separate && !wrote {
        out.push(' ');
    }
}

pub fn lay(toks: &[Tok], layout: Layout, rng: &Rng) -> (Laid, Vec<&'static str>) {
    let mut text = String::new();
    let mut off = Vec::with_capacity(toks.len());
    let mut kinds: Vec<&'static str> = vec![];
    if layout == Layout::RandomWithPrefix {
        for _ in 0..rng.range(1, 3) {
            text.push('\n');
        }
        text.push_str("// préambule 合约 — x++; a >= b\n");
        text.push_str(rng.ps(&MB_WS));
        text.push_str("/* é */ ");
        kinds.push("prefix");
    }
    if layout == Layout::TallPrefix {
        text.push_str(&"\n".repeat(70_000));
        kinds.push("tall-prefix");
    }
    let mut depth = 0usize;
    for (i, t) in toks.iter().enumerate() {
        if i > 0 {
            let prev = &toks[i - 1];
            let can_glue = if t.ws_only_before { t.glue_ok } else { is_glue_punct(&prev.s) || is_glue_punct(&t.s) };
            let prev_is_pragma_op = t.ws_only_before && matches!(prev.s.as_str(), ">=" | "<=" | ">" | "<" | "=" | "^" | "~");
            match layout {
                Layout::OneTokenPerLine | Layout::TallPrefix => text.push('\n'),
                Layout::SingleLine | Layout::SingleLineNl => text.push(' '),
                Layout::Compact => {
                    if !can_glue {
                        text.push(' ');
                    }
                }
                Layout::Pretty | Layout::NoFinalNewline | Layout::Crlf => {
                    let nl = if layout == Layout::Crlf { "\r\n" } else { "\n" };
                    if prev.s == "{" {
                        depth += 1;
                    }
                    if t.s == "}" && depth > 0 {
                        depth -= 1;
                    }
                    if (prev.s == ";" || prev.s == "{" || prev.s == "}") && !t.ws_only_before {
                        text.push_str(nl);
                        for _ in 0..depth {
                            text.push_str("    ");
                        }
                    } else if !can_glue || !(t.s == ";" || t.s == "," || t.s == ")" || prev.s == "(" || prev_is_pragma_op) {
                        text.push(' ');
                    }
                }
                Layout::Random | Layout::RandomWithPrefix => {
                    if prev.s.ends_with('/') {
                        // `/` followed by a comment would itself become a comment opener
                        text.push(' ');
                    }
                    random_gap(rng, t.ws_only_before, !can_glue, &mut text, &mut kinds);
                }
            }
        }
        off.push(text.len());
        text.push_str(&t.s);
    }
    match layout {
        Layout::OneTokenPerLine | Layout::TallPrefix | Layout::Compact | Layout::Pretty | Layout::SingleLineNl => text.push('\n'),
        Layout::Crlf => text.push_str("\r\n"),
        Layout::Random | Layout::RandomWithPrefix => {
            if rng.chance(1, 2) {
                text.push('\n');
            } else if rng.chance(1, 3) {
                text.push_str(" // trailing x++");
            }
        }
        _ => {}
    }
    let mut line = Vec::with_capacity(toks.len());
    let bytes = text.as_bytes();
    let mut cur = 1i32;
    let mut pos = 0usize;
    for &o in &off {
        while pos < o {
            if bytes[pos] == b'\n' {
                cur += 1;
            }
            pos += 1;
        }
        line.push(cur);
    }
    (Laid { text, off, line }, kinds)
}

/// Tokenise an existing source text with solang's own lexer (for corpus files).
/// Returns None if lexing fails.
pub fn lex(text: &str) -> Option<Vec<Tok>> {
    let mut comments = vec![];
    let lexer = solang_parser::lexer::Lexer::new(text, 0, &mut comments);
    let mut out = vec![];
    let mut prev2: [bool; 2] = [false, false]; // [was pragma, was identifier-after-pragma]
    let mut after_value = false;
    for item in lexer {
        match item {
            Ok((s, tok, e)) => {
                use solang_parser::lexer::Token;
                let is_pragma = matches!(tok, Token::Pragma);
                let is_ident = matches!(tok, Token::Identifier(_));
                let ws_only = prev2[0] || prev2[1] || after_value;
                after_value = prev2[1] && !matches!(tok, Token::Semicolon);
                prev2 = [is_pragma, prev2[0] && is_ident];
                if after_value {
                    // a pragma's value: one raw string for the lexer, operators and atoms (comments dropped) for us
                    for (part, glue) in crate::gast::pragma_value_tokens(&text[s..e]) {
                        out.push(Tok { s: part, ws_only_before: true, glue_ok: glue });
                    }
                    continue;
                }
                out.push(Tok { s: text[s..e].to_string(), ws_only_before: ws_only, glue_ok: ws_only && matches!(tok, solang_parser::lexer::Token::Semicolon) });
            }
            Err(_) => return None,
        }
    }
    Some(out)
}

/// token texts as the lexer sees them (for the round-trip self-check)
pub fn lex_texts(text: &str) -> Option<Vec<String>> {
    lex(text).map(|v| v.into_iter().map(|t| t.s).collect())
}
