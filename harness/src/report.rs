//! Report model: an independent table pattern -> section text, a strict parser of the report
//! grammar, and findings-map helpers.
use solstat::analyzer::optimizations::Optimization as O;
use solstat::analyzer::qa::QualityAssurance as Q;
use solstat::analyzer::vulnerabilities::Vulnerability as V;
use solstat::report::report_sections::{optimizations as so, qa as sq, vulnerabilities as sv};
use std::collections::{BTreeSet, HashMap};

pub type Entries = Vec<(String, BTreeSet<i32>)>;
/// the same in the library's own line-number type (the harness keeps building if that type changes)
pub type LibEntries = Vec<(String, BTreeSet<solstat::analyzer::utils::LineNumber>)>;

pub fn lib_entries(es: &Entries) -> LibEntries {
    es.iter().map(|(f, ls)| (f.clone(), ls.iter().map(|l| *l as solstat::analyzer::utils::LineNumber).collect())).collect()
}

/// (detector name, category, section text, severity heading for vulnerabilities)
pub fn section_table() -> Vec<(&'static str, &'static str, String, Option<&'static str>)> {
    vec![
        ("address_balance", "optimizations", so::address_balance::report_section_content(), None),
        ("address_zero", "optimizations", so::address_zero::report_section_content(), None),
        ("assign_update_array_value", "optimizations", so::assign_update_array_value::report_section_content(), None),
        ("bool_equals_bool", "optimizations", so::bool_equals_bool::report_section_content(), None),
        ("cache_array_length", "optimizations", so::cache_array_length::report_section_content(), None),
        ("constant_variables", "optimizations", so::constant_variable::report_section_content(), None),
        ("immutable_variables", "optimizations", so::immutable_variable::report_section_content(), None),
        ("increment_decrement", "optimizations", so::increment_decrement::report_section_content(), None),
        ("memory_to_calldata", "optimizations", so::memory_to_calldata::report_section_content(), None),
        ("multiple_require", "optimizations", so::multiple_require::report_section_content(), None),
        ("optimal_comparison", "optimizations", so::optimal_comparison::report_section_content(), None),
        ("pack_storage_variables", "optimizations", so::pack_storage_variables::report_section_content(), None),
        ("pack_struct_variables", "optimizations", so::pack_struct_variables::report_section_content(), None),
        ("payable_function", "optimizations", so::payable_function::report_section_content(), None),
        ("private_constant", "optimizations", so::private_constant::report_section_content(), None),
        ("safe_math_pre_080", "optimizations", so::safe_math_pre_080::report_section_content(), None),
        ("safe_math_post_080", "optimizations", so::safe_math_post_080::report_section_content(), None),
        ("shift_math", "optimizations", so::shift_math::report_section_content(), None),
        ("short_revert_string", "optimizations", so::short_revert_string::report_section_content(), None),
        ("solidity_keccak256", "optimizations", so::solidity_keccak256::report_section_content(), None),
        ("solidity_math", "optimizations", so::solidity_math::report_section_content(), None),
        ("sstore", "optimizations", so::sstore::report_section_content(), None),
        ("string_errors", "optimizations", so::string_errors::report_section_content(), None),
        ("floating_pragma", "vulnerabilities", sv::floating_pragma::report_section_content(), Some("## Low Risk\n")),
        ("unsafe_erc20_operation", "vulnerabilities", sv::unsafe_erc20_operation::report_section_content(), Some("## Low Risk\n")),
        ("unprotected_selfdestruct", "vulnerabilities", sv::unprotected_selfdestruct::report_section_content(), Some("## High Risk\n")),
        ("divide_before_multiply", "vulnerabilities", sv::divide_before_multiply::report_section_content(), Some("## Medium Risk\n")),
        ("constructor_order", "qa", sq::constructor_order::report_section_content(), None),
        ("private_vars_leading_underscore", "qa", sq::private_vars_leading_underscore::report_section_content(), None),
        ("private_func_leading_underscore", "qa", sq::private_func_leading_underscore::report_section_content(), None),
    ]
}

pub fn opt_by_name(n: &str) -> Option<O> {
    match crate::dets::by_name(n) {
        Some(crate::dets::Det::Opt(o)) => Some(o),
        _ => None,
    }
}
pub fn vuln_by_name(n: &str) -> Option<V> {
    match crate::dets::by_name(n) {
        Some(crate::dets::Det::Vuln(o)) => Some(o),
        _ => None,
    }
}
pub fn qa_by_name(n: &str) -> Option<Q> {
    match crate::dets::by_name(n) {
        Some(crate::dets::Det::Qa(o)) => Some(o),
        _ => None,
    }
}

/// Table self-check: pairwise distinct, none a prefix of another, none starts like a list entry.
pub fn table_problems(t: &[(&'static str, &'static str, String, Option<&'static str>)]) -> Vec<String> {
    let mut out = vec![];
    for (i, a) in t.iter().enumerate() {
        if a.2.trim().is_empty() {
            out.push(format!("section text of {} is blank", a.0));
        }
        for (j, b) in t.iter().enumerate() {
            if i != j && b.2.starts_with(a.2.as_str()) {
                out.push(format!("section text of {} is a prefix of {}", a.0, b.0));
            }
        }
        for h in ["## High Risk\n", "## Medium Risk\n", "## Low Risk\n", "### Lines\n", "# Gas Optimizations - ("] {
            if a.2.starts_with(h) {
                out.push(format!("section text of {} starts with structural text {:?}", a.0, h));
            }
        }
    }
    out
}

#[derive(Debug, Clone)]
pub struct Sec {
    pub pattern: &'static str,
    /// severity heading most recently seen in this part (vulnerabilities)
    pub heading: Option<String>,
    /// (file, line text) in order of appearance
    pub entries: Vec<(String, String)>,
}

#[derive(Debug, Clone, Default)]
pub struct Part {
    pub total: Option<u64>,
    pub sections: Vec<Sec>,
    /// severity headings in order, with the number of sections that followed each
    pub headings: Vec<(String, usize)>,
}

#[derive(Debug, Clone, Default)]
pub struct Parsed {
    pub vuln: Option<Part>,
    pub opt: Option<Part>,
    pub qa: Option<Part>,
    /// order in which the parts appeared
    pub order: Vec<&'static str>,
}

const VULN_PREFIX: &str = "# Gas Optimizations - (Total Vulnerabilities ";
const OPT_PREFIX: &str = "# Gas Optimizations - (Total Optimizations ";

fn parse_total(text: &str, pos: usize, prefix: &str) -> Result<(u64, usize), String> {
    let rest = &text[pos + prefix.len()..];
    let end = rest.find(')').ok_or("overview: no closing parenthesis")?;
    let n: u64 = rest[..end].parse().map_err(|_| format!("overview: total is not a number: {:?}", &rest[..end]))?;
    // (the conversion target is whatever integer type the overview function takes: the check keeps building if that changes)
    fn fit<T: TryFrom<u64>>(n: u64) -> Result<T, String> {
        T::try_from(n).map_err(|_| format!("overview: the printed total {} does not fit the overview function's own parameter type", n))
    }
    let expected = if prefix == VULN_PREFIX { sv::overview::report_section_content(fit(n)?) } else { so::overview::report_section_content(fit(n)?) };
    if !text[pos..].starts_with(expected.as_str()) {
        return Err("overview: text differs from the overview template".into());
    }
    Ok((n, pos + expected.len()))
}

/// Parse sections from `pos` for one category; stops where no section/heading matches.
fn parse_sections(
    text: &str,
    mut pos: usize,
    category: &str,
    table: &[(&'static str, &'static str, String, Option<&'static str>)],
    part: &mut Part,
) -> Result<usize, String> {
    let mut cur_heading: Option<String> = None;
    loop {
        if category == "vulnerabilities" {
            let mut matched = false;
            for h in ["## High Risk\n", "## Medium Risk\n", "## Low Risk\n"] {
                if text[pos..].starts_with(h) {
                    cur_heading = Some(h.to_string());
                    part.headings.push((h.to_string(), 0));
                    pos += h.len();
                    matched = true;
                    break;
                }
            }
            if matched {
                continue;
            }
        }
        // longest matching section text of this category
        let mut best: Option<&(&'static str, &'static str, String, Option<&'static str>)> = None;
        for row in table.iter().filter(|r| r.1 == category) {
            if text[pos..].starts_with(row.2.as_str()) && best.map(|b| row.2.len() > b.2.len()).unwrap_or(true) {
                best = Some(row);
            }
        }
        let row = match best {
            Some(r) => r,
            None => return Ok(pos),
        };
        pos += row.2.len();
        let lines_hdr = "\n### Lines\n";
        if !text[pos..].starts_with(lines_hdr) {
            return Err(format!("section {}: not followed by the lines header at byte {}", row.0, pos));
        }
        pos += lines_hdr.len();
        let mut entries = vec![];
        loop {
            let rest = &text[pos..];
            let eol = match rest.find('\n') {
                Some(e) => e,
                None => return Err(format!("section {}: unterminated line at byte {}", row.0, pos)),
            };
            let line = &rest[..eol];
            if line.is_empty() {
                break;
            }
            if !line.starts_with("- ") {
                return Err(format!("section {}: line in entry list does not start with '- ': {:?}", row.0, crate::common::trunc(line, 80)));
            }
            let body = &line[2..];
            let colon = body.rfind(':').ok_or_else(|| format!("section {}: entry without ':'", row.0))?;
            entries.push((body[..colon].to_string(), body[colon + 1..].to_string()));
            pos += eol + 1;
        }
        // the entry list is closed by "\n\n" (an empty line, then one more newline)
        if !text[pos..].starts_with("\n\n") {
            return Err(format!("section {}: entry list not closed by a blank line at byte {}", row.0, pos));
        }
        pos += 2;
        if let Some(h) = part.headings.last_mut() {
            h.1 += 1;
        }
        part.sections.push(Sec { pattern: row.0, heading: cur_heading.clone(), entries });
    }
}

/// Parse a complete solstat_report.md
pub fn parse_report(text: &str, table: &[(&'static str, &'static str, String, Option<&'static str>)]) -> Result<Parsed, String> {
    let mut p = Parsed::default();
    let mut pos = 0usize;
    if text[pos..].starts_with(VULN_PREFIX) {
        let mut part = Part::default();
        let (n, np) = parse_total(text, pos, VULN_PREFIX)?;
        part.total = Some(n);
        pos = parse_sections(text, np, "vulnerabilities", table, &mut part)?;
        if !text[pos..].starts_with("\n\n") {
            return Err(format!("vulnerability part not followed by a blank line at byte {}", pos));
        }
        pos += 2;
        p.vuln = Some(part);
        p.order.push("vulnerabilities");
    }
    if text[pos..].starts_with(OPT_PREFIX) {
        let mut part = Part::default();
        let (n, np) = parse_total(text, pos, OPT_PREFIX)?;
        part.total = Some(n);
        pos = parse_sections(text, np, "optimizations", table, &mut part)?;
        if !text[pos..].starts_with("\n\n") {
            return Err(format!("optimization part not followed by a blank line at byte {}", pos));
        }
        pos += 2;
        p.opt = Some(part);
        p.order.push("optimizations");
    }
    if pos < text.len() {
        let qa_over = format!("{}\n", sq::overview::report_section_content());
        if !text[pos..].starts_with(qa_over.as_str()) {
            return Err(format!("unparseable text at byte {}: {:?}", pos, crate::common::trunc(&text[pos..], 80)));
        }
        let mut part = Part::default();
        pos = parse_sections(text, pos + qa_over.len(), "qa", table, &mut part)?;
        if !text[pos..].starts_with("\n\n") {
            return Err(format!("qa part not followed by a blank line at byte {}", pos));
        }
        pos += 2;
        p.qa = Some(part);
        p.order.push("qa");
    }
    if pos != text.len() {
        return Err(format!("trailing text at byte {}: {:?}", pos, crate::common::trunc(&text[pos..], 80)));
    }
    Ok(p)
}

/// Parse the String returned by one generate_*_report function.
pub fn parse_category(text: &str, category: &str, table: &[(&'static str, &'static str, String, Option<&'static str>)]) -> Result<Part, String> {
    let mut part = Part::default();
    let mut pos = 0usize;
    match category {
        "vulnerabilities" => {
            if !text.starts_with(VULN_PREFIX) {
                return Err("vulnerability report does not start with its overview".into());
            }
            let (n, np) = parse_total(text, 0, VULN_PREFIX)?;
            part.total = Some(n);
            pos = np;
        }
        "optimizations" => {
            if !text.starts_with(OPT_PREFIX) {
                return Err("optimization report does not start with its overview".into());
            }
            let (n, np) = parse_total(text, 0, OPT_PREFIX)?;
            part.total = Some(n);
            pos = np;
        }
        _ => {
            let qa_over = format!("{}\n", sq::overview::report_section_content());
            if !text.starts_with(qa_over.as_str()) {
                return Err("qa report does not start with its overview".into());
            }
            pos += qa_over.len();
        }
    }
    let end = parse_sections(text, pos, category, table, &mut part)?;
    if end != text.len() {
        return Err(format!("unparseable text at byte {}: {:?}", end, crate::common::trunc(&text[end..], 80)));
    }
    Ok(part)
}

/// multiset of (pattern, file, line) from a parsed part
pub fn flatten_part(p: &Part) -> Vec<(String, String, String)> {
    let mut v = vec![];
    for s in &p.sections {
        for (f, l) in &s.entries {
            v.push((s.pattern.to_string(), f.clone(), l.clone()));
        }
    }
    v.sort();
    v
}

pub fn flatten_map(m: &[(&'static str, Entries)]) -> Vec<(String, String, String)> {
    let mut v = vec![];
    for (p, es) in m {
        for (f, ls) in es {
            for l in ls {
                v.push((p.to_string(), f.clone(), l.to_string()));
            }
        }
    }
    v.sort();
    v
}

pub fn to_opt_map(m: &[(&'static str, Entries)], order: &[usize], reserve: usize) -> HashMap<O, LibEntries> {
    let mut h = HashMap::with_capacity(reserve);
    for &i in order {
        h.insert(opt_by_name(m[i].0).unwrap(), lib_entries(&m[i].1));
    }
    h
}
pub fn to_vuln_map(m: &[(&'static str, Entries)], order: &[usize], reserve: usize) -> HashMap<V, LibEntries> {
    let mut h = HashMap::with_capacity(reserve);
    for &i in order {
        h.insert(vuln_by_name(m[i].0).unwrap(), lib_entries(&m[i].1));
    }
    h
}
pub fn to_qa_map(m: &[(&'static str, Entries)], order: &[usize], reserve: usize) -> HashMap<Q, LibEntries> {
    let mut h = HashMap::with_capacity(reserve);
    for &i in order {
        h.insert(qa_by_name(m[i].0).unwrap(), lib_entries(&m[i].1));
    }
    h
}

pub fn render_category(category: &str, m: &[(&'static str, Entries)], order: &[usize], reserve: usize) -> String {
    match category {
        "optimizations" => solstat::report::optimization_report::generate_optimization_report(to_opt_map(m, order, reserve)),
        "vulnerabilities" => solstat::report::vulnerability_report::generate_vulnerability_report(to_vuln_map(m, order, reserve)),
        _ => solstat::report::qa_report::generate_qa_report(to_qa_map(m, order, reserve)),
    }
}
