//! Small-scope enumeration of degenerate but parseable expression forms for the termination monitor (C04):
//! every call of a well-known name with zero or one argument, every operator over a catalogue of odd literals
//! (zero in every spelling, separators, negative and zero exponents, escapes, surrogates, empty strings), nested once
//! more at random, placed in statement contexts under pragmas on both sides of the version thresholds.
//! Only texts that the parser accepts are used; nothing here says what a detector should report — only that it returns.
use crate::common::Rng;

pub const LEAVES: [&str; 77] = [
    // numbers
    "0", "1", "2", "3", "8", "10", "0x0", "0x00", "0x0_0", "0x0000_0000", "0x10", "0x1_0", "0xff", "0x8000_0000", "1e0", "0e0", "0e5", "5e-1", "25e-1", "1e-3",
    "2e3", "1_000", "1_0e1_0", ".5", "0.5", "1.5e1", "2e-0", "1 ether", "2 days", "0 wei", "1 gwei", "4294967296", "18446744073709551616",
    "115792089237316195423570985008687907853269984665640564039457584007913129639935", "1e77", "0.000000000000000001 ether",
    // strings
    "\"\"", "\"a\"", "'b'", "\"\\u0041\"", "\"\\ud83d\\ude00\"", "\"\\udfff\"", "\"\\xff\"", "\"\\n\\\\\\\"\"", "unicode\"é\"", "hex\"\"", "hex\"00\"", "hex\"00_ff\"",
    "\"\\ud800 a lone high surrogate in front of more than thirty-two bytes\"", "\"more than thirty-two bytes and then a lone low surrogate \\udc00\"", "\"\\u0000 NUL and \\uffff in a message of more than thirty-two bytes\"",
    "\"thirty-two bytes long string  012\"", "\"a message with a surrogate pair \\ud83d\\ude00 that is longer than 32 bytes\"", "\"a\" \"b\"", "\"sixteen bytes...\" \"sixteen bytes...\"",
    "\"\\u00e9\\u00e9\\u00e9\\u00e9\\u00e9\\u00e9\\u00e9\\u00e9\\u00e9\\u00e9\\u00e9\\u00e9\\u00e9\\u00e9\\u00e9\\u00e9\\u00e9\"",
    // names and small expressions
    "a", "x", "msg.sender", "msg.value", "this", "arr", "arr.length", "token", "true", "false", "address(0)", "address(0x0)", "type(uint256).max", "_", "owner", "block.timestamp",
    "0x0000000000000000000000000000000000000000", "payable(0)", "x.y.z", "arr[0]", "a.b()",
];

pub const CALLEES: [&str; 40] = [
    "address", "payable", "uint160", "uint256", "uint8", "int256", "bytes20", "bytes32", "bytes4", "bytes", "string", "bool", "keccak256", "sha3", "sha256", "require", "assert", "revert",
    "selfdestruct", "suicide", "abi.encodePacked", "abi.encode", "abi.decode", "x.add", "x.sub", "x.mul", "x.div", "token.transfer", "token.transferFrom", "token.approve", "token.safeTransfer", "arr.push",
    "arr.pop", "f", "new C", "type", "blockhash", "this.f", "super.f", "IERC20(token).transfer",
];

pub const BINOPS: [&str; 33] = [
    "+", "-", "*", "/", "%", "**", "<<", ">>", "&", "|", "^", "&&", "||", "==", "!=", "<", "<=", ">", ">=", "=", "+=", "-=", "*=", "/=", "%=", "<<=", ">>=", "&=", "|=", "^=", ",", "?", ":",
];

const RIGHTS: [&str; 14] = ["0", "2", "0x0_0", "5e-1", "1e0", "\"\"", "a", "msg.sender", "address(0)", "arr.length", "true", "8", "0x0000_0000", "address(uint160())"];

pub const CONTEXTS: usize = 14;

/// number of leading entries of `depth1()` that are "structural" forms (calls, prefix/postfix, index, slice, member,
/// tuple, ternary): those are placed in every statement context, the operator products in one context each
pub fn structural_count() -> usize {
    depth1_parts().0.len()
}

/// systematic depth-1 expressions: structural forms first, operator products after them
pub fn depth1() -> Vec<String> {
    let (mut a, b) = depth1_parts();
    a.extend(b);
    a
}

fn depth1_parts() -> (Vec<String>, Vec<String>) {
    let mut v: Vec<String> = vec![];
    let mut ops: Vec<String> = vec![];
    for c in CALLEES.iter() {
        v.push(format!("{}()", c));
        for l in LEAVES.iter() {
            v.push(format!("{}({})", c, l));
        }
        v.push(format!("{}(a, 0)", c));
        v.push(format!("{}({{value: 0}})", c));
        v.push(format!("{}{{value: 0}}()", c));
        v.push(format!("{}({{a: 0}})", c));
    }
    for op in BINOPS.iter() {
        if *op == "?" || *op == ":" || *op == "," {
            continue;
        }
        for l in LEAVES.iter() {
            for r in RIGHTS.iter() {
                ops.push(format!("{} {} {}", l, op, r));
                if l != r {
                    ops.push(format!("{} {} {}", r, op, l));
                }
            }
        }
    }
    for l in LEAVES.iter() {
        for u in ["!", "~", "-", "+", "++", "--", "delete ", "new "] {
            v.push(format!("{}{}", u, l));
        }
        v.push(format!("{}++", l));
        v.push(format!("{}--", l));
        v.push(format!("{}[{}]", l, l));
        v.push(format!("{}[]", l));
        v.push(format!("{}[0:1]", l));
        v.push(format!("{}[:]", l));
        for m in ["length", "balance", "transfer", "selector", "add", "push", "max"] {
            v.push(format!("{}.{}", l, m));
        }
        v.push(format!("({})", l));
        v.push(format!("({}, )", l));
        v.push(format!("[{}]", l));
        v.push(format!("{} ? {} : {}", l, l, l));
        v.push(format!("a == {} ? 0x0_0 * a : a / 0x0", l));
    }
    (v, ops)
}

fn wrap(pragma: &str, stmts: &[String], inits: &[String]) -> String {
    wrap_with(pragma, stmts, inits, &[])
}

/// `decl_types`: expressions used as the declared type of a state variable and of a struct field (the parser reads
/// declared types with its general expression grammar)
fn wrap_with(pragma: &str, stmts: &[String], inits: &[String], decl_types: &[String]) -> String {
    let mut t = String::new();
    if !pragma.is_empty() {
        t.push_str(&format!("pragma solidity {};\n", pragma));
    }
    t.push_str("contract C {\n    using SafeMath for uint256;\n    uint256 x;\n    uint256[] arr;\n    address owner;\n    IERC20 token;\n");
    for (i, e) in inits.iter().enumerate() {
        t.push_str(&format!("    uint256 public v{} = {};\n", i, e));
    }
    for (i, e) in decl_types.iter().enumerate() {
        t.push_str(&format!("    {} w{};\n    struct SW{} {{ uint8 a; {} b; uint8 c; }}\n", e, i, i, e));
    }
    t.push_str("    function f(uint256 a, address b) public returns (uint256) {\n");
    for s in stmts {
        t.push_str("        ");
        t.push_str(s);
        t.push('\n');
    }
    t.push_str("    }\n}\n");
    t
}

fn in_context(e: &str, which: usize) -> String {
    match which % 14 {
        12 => format!("arr[0] = {} + 1;", e),
        13 => format!("arr[1] = {} * arr[1];", e),
        0 => format!("{};", e),
        1 => format!("x = {};", e),
        2 => format!("require({}, \"m\");", e),
        3 => format!("require(a > 0, {});", e),
        4 => format!("if ({}) {{ x++; }}", e),
        5 => format!("for (uint256 i = 0; i < {}; i++) {{ }}", e),
        6 => format!("return {};", e),
        7 => format!("arr[0] = arr[0] + {};", e),
        8 => format!("if (b == {}) {{ }} else if ({} != b) {{ }}", e, e),
        9 => format!("x = a * {} / {};", e, e),
        10 => format!("unchecked {{ {}; }}", e),
        _ => format!("require({} && {}, {});", e, e, e),
    }
}

const PRAGMAS: [&str; 7] = ["0.8.17", "0.7.6", "0.8.3", "0.8.4", "", "0.4.24", "^0.8.0"];

pub const PER_FILE: usize = 40;

/// (expression index, context) pairs of the systematic part
fn systematic_pair(j: usize, nstruct: usize) -> (usize, usize) {
    if j < nstruct * CONTEXTS {
        (j / CONTEXTS, j % CONTEXTS)
    } else {
        let e = nstruct + (j - nstruct * CONTEXTS);
        (e, e % CONTEXTS)
    }
}

fn systematic_pairs(nforms: usize, nstruct: usize) -> usize {
    nstruct * CONTEXTS + (nforms - nstruct)
}

pub fn systematic_files() -> u64 {
    let (a, b) = depth1_parts();
    ((systematic_pairs(a.len() + b.len(), a.len()) + PER_FILE - 1) / PER_FILE) as u64
}

/// file number k: the k-th slice of the systematic forms, or (beyond them) forms nested once or twice more at random;
/// statements that the parser rejects are left out; None if nothing is left
pub fn file(k: u64, rng: &Rng, forms: &[String]) -> Option<(String, String)> {
    let nstruct = structural_count();
    let npairs = systematic_pairs(forms.len(), nstruct);
    let nsys = ((npairs + PER_FILE - 1) / PER_FILE) as u64;
    let mut exprs: Vec<String> = vec![];
    let mut ctxs: Vec<usize> = vec![];
    let name;
    if k < nsys {
        let lo = k as usize * PER_FILE;
        for j in lo..(lo + PER_FILE).min(npairs) {
            let (e, c) = systematic_pair(j, nstruct);
            exprs.push(forms[e].clone());
            ctxs.push(c);
        }
        name = format!("degenerate:systematic:{}", k);
    } else {
        for _ in 0..PER_FILE {
            let mut e = rng.pick(forms).clone();
            for _ in 0..rng.range(1, 2) {
                // substitute a whole form for one occurrence of a leaf-like token
                let inner = rng.pick(forms).clone();
                let outer = rng.pick(forms).clone();
                let hole = rng.ps(&["a", "0", "x", "2"]);
                e = match outer.find(hole) {
                    Some(p) if rng.chance(1, 2) => format!("{}({}){}", &outer[..p], e, &outer[p + hole.len()..]),
                    _ => format!("{} {} ({})", e, rng.ps(&["*", "/", "==", "+", "&&", "="]), inner),
                };
            }
            exprs.push(e);
        }
        name = format!("degenerate:nested:{}", k);
    }
    let pragma = PRAGMAS[(k % PRAGMAS.len() as u64) as usize];
    let stmts: Vec<String> = exprs.iter().enumerate().map(|(i, e)| in_context(e, if i < ctxs.len() { ctxs[i] } else { i + k as usize })).collect();
    let inits: Vec<String> = if k % 3 == 0 { exprs.iter().take(4).cloned().collect() } else { vec![] };
    let decls: Vec<String> = if k % 4 == 1 { exprs.iter().skip(4).take(6).cloned().collect() } else { vec![] };
    let whole = wrap_with(pragma, &stmts, &inits, &decls);
    if crate::dets::parses(&whole) {
        return Some((name, whole));
    }
    let ok_stmts: Vec<String> = stmts.into_iter().filter(|s| crate::dets::parses(&wrap(pragma, std::slice::from_ref(s), &[]))).collect();
    let ok_inits: Vec<String> = inits.into_iter().filter(|e| crate::dets::parses(&wrap(pragma, &[], std::slice::from_ref(e)))).collect();
    let ok_decls: Vec<String> = decls.into_iter().filter(|e| crate::dets::parses(&wrap_with(pragma, &[], &[], std::slice::from_ref(e)))).collect();
    if ok_stmts.is_empty() && ok_inits.is_empty() && ok_decls.is_empty() {
        return None;
    }
    let t = wrap_with(pragma, &ok_stmts, &ok_inits, &ok_decls);
    if crate::dets::parses(&t) {
        Some((name, t))
    } else {
        None
    }
}
