//! Corpus: hand-written contracts under /verif/corpus plus every Solidity snippet embedded in
//! /repo/src/**/*.rs (unit-test inputs, report examples) that the parser accepts.
use crate::common::*;
use std::path::Path;

#[derive(Clone)]
pub struct Prog {
    pub name: String,
    pub text: String,
}

fn walk(dir: &Path, out: &mut Vec<std::path::PathBuf>) {
    if let Ok(rd) = std::fs::read_dir(dir) {
        let mut es: Vec<_> = rd.filter_map(|e| e.ok()).map(|e| e.path()).collect();
        es.sort();
        for p in es {
            if p.is_dir() {
                walk(&p, out);
            } else {
                out.push(p);
            }
        }
    }
}

/// raw strings r#"..."# / r##"..."## in Rust sources
fn raw_strings(src: &str) -> Vec<String> {
    let mut out = vec![];
    let b = src.as_bytes();
    let mut i = 0;
    while i + 2 < b.len() {
        if b[i] == b'r' && b[i + 1] == b'#' {
            let mut j = i + 1;
            let mut hashes = 0;
            while j < b.len() && b[j] == b'#' {
                hashes += 1;
                j += 1;
            }
            if j < b.len() && b[j] == b'"' {
                let start = j + 1;
                let close: String = std::iter::once('"').chain(std::iter::repeat('#').take(hashes)).collect();
                if let Some(e) = src[start..].find(&close) {
                    out.push(src[start..start + e].to_string());
                    i = start + e + close.len();
                    continue;
                }
            }
        }
        i += 1;
    }
    out
}

fn fenced_blocks(md: &str) -> Vec<String> {
    let mut out = vec![];
    let mut cur: Option<String> = None;
    for line in md.lines() {
        if line.trim_start().starts_with("```") {
            if let Some(c) = cur.take() {
                out.push(c);
            } else {
                cur = Some(String::new());
            }
        } else if let Some(c) = cur.as_mut() {
            c.push_str(line);
            c.push('\n');
        }
    }
    out
}

pub fn load() -> Vec<Prog> {
    let mut v = vec![];
    let mut files = vec![];
    walk(Path::new(&format!("{}/corpus", VERIF_DIR)), &mut files);
    for f in files {
        if f.extension().map(|e| e == "sol").unwrap_or(false) {
            if let Ok(t) = std::fs::read_to_string(&f) {
                if crate::dets::parses(&t) {
                    v.push(Prog { name: format!("corpus/{}", f.file_name().unwrap().to_string_lossy()), text: t });
                }
            }
        }
    }
    let mut rs = vec![];
    walk(Path::new(&format!("{}/src", REPO_DIR)), &mut rs);
    let mut seen = std::collections::HashSet::new();
    for f in rs {
        if f.extension().map(|e| e == "rs").unwrap_or(false) {
            if let Ok(src) = std::fs::read_to_string(&f) {
                let mut cands = raw_strings(&src);
                // report sections embed ```js fenced examples inside the raw strings
                let mut inner = vec![];
                for c in &cands {
                    inner.extend(fenced_blocks(c));
                }
                cands.extend(inner);
                for (i, c) in cands.into_iter().enumerate() {
                    if c.trim().len() < 20 || !seen.insert(hash_str(&c)) {
                        continue;
                    }
                    if crate::dets::parses(&c) {
                        let rel = f.strip_prefix(REPO_DIR).unwrap_or(&f).to_string_lossy().to_string();
                        v.push(Prog { name: format!("repo:{}#{}", rel, i), text: c });
                    }
                }
            }
        }
    }
    v
}
