//! C13 — the report is a deterministic function of the set of findings.
use crate::common::*;
use crate::mon::c11::{gen_map, map_json, patterns_of};
use crate::report;
use serde_json::json;
use std::collections::HashSet;

fn first_diff(a: &str, b: &str) -> usize {
    a.bytes().zip(b.bytes()).position(|(x, y)| x != y).unwrap_or(a.len().min(b.len()))
}

pub fn run(ctx: &Ctx) -> i32 {
    let mut acc = Acc::default();
    let mut meta = Meta::new(
        "in-process: the same findings multiset is loaded into K fresh HashMaps (each with its own RandomState), with permuted insertion order, varied reserved capacity and permuted order of the per-pattern (file, lines) vector, \
         and rendered; all K strings must be byte-identical. Cross-process (binary): the same directory content is analysed repeatedly, from copies created in different orders (different read_dir orders on tmpfs) and with permuted pattern lists in the toml. \
         non-trivial = multiset with >= 3 patterns in one category or >= 2 files under one pattern; distinct by multiset content",
    );
    let table = report::section_table();
    let _ = table;
    let n = ctx.tier.pick(3_000u64, 1_000_000u64);
    let kk = ctx.tier.pick(8usize, 16usize);
    let distinct_orders = std::sync::Mutex::new(HashSet::<u64>::new());
    run_workload(ctx, &mut acc, "renderings", n, |k, rng, acc| {
        let category = ["optimizations", "vulnerabilities", "qa"][(k % 3) as usize];
        let np = patterns_of(category).len();
        let mut mask = 0u64;
        for i in 0..np {
            if rng.chance(1, 2) {
                mask |= 1 << i;
            }
        }
        if mask == 0 {
            mask = 3;
        }
        // mostly a handful of files per pattern; now and then long lists (33-150 files, with namesakes among them)
        let max_files = match rng.below(12) {
            0 => 40,
            1 => 150,
            _ => 4,
        };
        let m = gen_map(rng, category, mask, max_files);
        if m.iter().any(|(_, e)| e.len() > 32) {
            acc.cov("maps-with-more-than-32-files-under-a-pattern");
        }
        let nontrivial = m.len() >= 3 || m.iter().any(|(_, e)| e.len() >= 2);
        if nontrivial {
            acc.nontrivial_h(hash_str(&map_json(&m).to_string()));
        }
        let order0: Vec<usize> = (0..m.len()).collect();
        let base = report::render_category(category, &m, &order0, 0);
        let mut orders_seen: HashSet<u64> = HashSet::new();
        orders_seen.insert(hash_str(&base));
        for j in 0..kk {
            // vary: insertion order, capacity; on odd j also the order of the file vectors
            let mut order = order0.clone();
            rng.shuffle(&mut order);
            let mut m2 = m.clone();
            let permute_files = j % 2 == 1;
            if permute_files {
                for (_, es) in m2.iter_mut() {
                    rng.shuffle(es);
                }
            }
            let text = report::render_category(category, &m2, &order, *rng.pick(&[0usize, 1, 7, 64]));
            acc.eval();
            orders_seen.insert(hash_str(&text));
            if text != base {
                // classify: would it be equal with the file vectors left alone?
                let sig = if permute_files {
                    let t2 = report::render_category(category, &m, &order, 0);
                    if t2 == base {
                        "order:files-within-pattern".to_string()
                    } else {
                        format!("order:sections:{}", category)
                    }
                } else {
                    format!("order:sections:{}", category)
                };
                let d = first_diff(&base, &text);
                acc.violation(sig, json!({"category": category, "findings": map_json(&m), "first_difference_at_byte": d, "rendering_a": around(&base, d, 60, 300), "rendering_b": around(&text, d, 60, 300)}));
                break;
            }
        }
        distinct_orders.lock().unwrap().insert(orders_seen.len() as u64);
        acc.cov(&format!("distinct-renderings-per-multiset:{}", orders_seen.len().min(9)));
        if k < 2 {
            acc.sample(json!({"category": category, "findings": map_json(&m), "renderings": kk + 1}));
        }
    });

    // cross-process part: the binary on copies of one tree
    crate::mon::tree::c13_binary_part(ctx, &mut acc);

    meta.assumptions = vec!["byte equality of Strings / report files; no normalisation".into()];
    finish(ctx, acc, meta)
}
