//! Directory trees, the solstat binary as a subprocess, and the monitors that only observe
//! at the process / file-system boundary helpers (shared by C03, C13, C14, C16, C18).
use crate::common::*;
use crate::corpus;
use crate::dets::{self, Det};
use crate::mon::c11::{patterns_of, scratch_dir};
use crate::report;
use serde_json::{json, Value};
use std::collections::{BTreeMap, BTreeSet};
use std::path::Path;
use std::process::{Command, Stdio};

#[derive(Clone, Debug)]
pub enum Ent {
    File { name: String, bytes: Vec<u8> },
    Dir { name: String, kids: Vec<Ent> },
    /// symbolic link to a path (relative to the directory that holds the link)
    Link { name: String, target: String },
    /// a second name (hard link) for a file of the same directory that was created before it
    Hard { name: String, of: String },
}

pub fn build(root: &str, ents: &[Ent]) {
    // directory entries are created in the order of `ents` (creation order decides the listing order on tmpfs); the two
    // names of a hard-linked file are symmetric, so whichever comes first is written and the other one linked to it
    let mut first_name_of: std::collections::HashMap<String, String> = std::collections::HashMap::new();
    for e in ents {
        match e {
            Ent::File { name, bytes } => {
                let p = format!("{}/{}", root, name);
                match first_name_of.get(name) {
                    Some(other) => {
                        if std::fs::hard_link(format!("{}/{}", root, other), &p).is_err() {
                            std::fs::write(&p, bytes).expect("write tree file");
                        }
                    }
                    None => std::fs::write(&p, bytes).expect("write tree file"),
                }
            }
            Ent::Dir { name, kids } => {
                let d = format!("{}/{}", root, name);
                std::fs::create_dir(&d).expect("mkdir tree dir");
                build(&d, kids);
            }
            Ent::Link { name, target } => {
                let _ = std::os::unix::fs::symlink(target, format!("{}/{}", root, name));
            }
            Ent::Hard { name, of } => {
                let (p, o) = (format!("{}/{}", root, name), format!("{}/{}", root, of));
                if std::path::Path::new(&o).exists() {
                    if std::fs::hard_link(&o, &p).is_err() {
                        // no hard links on this file system: an ordinary copy keeps the tree's meaning
                        let _ = std::fs::copy(&o, &p);
                    }
                } else if let Some(Ent::File { bytes, .. }) = ents.iter().find(|x| matches!(x, Ent::File { name: n, .. } if n == of)) {
                    std::fs::write(&p, bytes).expect("write tree file");
                    first_name_of.insert(of.clone(), name.clone());
                }
            }
        }
    }
}

pub fn to_json(ents: &[Ent]) -> Value {
    Value::Array(
        ents.iter()
            .map(|e| match e {
                Ent::File { name, bytes } => json!({"file": name, "bytes": bytes.len(), "head": trunc(&String::from_utf8_lossy(&bytes[..bytes.len().min(80)]), 80)}),
                Ent::Dir { name, kids } => json!({"dir": name, "entries": to_json(kids)}),
                Ent::Link { name, target } => json!({"symlink": name, "target": target}),
                Ent::Hard { name, of } => json!({"hard_link": name, "of": of}),
            })
            .collect(),
    )
}

pub fn eligible(name: &str) -> bool {
    name.ends_with(".sol") && !name.to_lowercase().ends_with(".t.sol")
}

/// names for which the statement is silent: ends in .sol, not in .t.sol, but contains ".t.sol" elsewhere
pub fn dont_care_name(name: &str) -> bool {
    name.ends_with(".sol") && !name.to_lowercase().ends_with(".t.sol") && name.to_lowercase().contains(".t.sol")
}

/// Observed read_dir order (what solstat will see), as (name, is_dir)
pub fn listing(dir: &str) -> Vec<(String, bool)> {
    match std::fs::read_dir(dir) {
        Ok(rd) => rd.filter_map(|e| e.ok()).map(|e| (e.file_name().to_string_lossy().to_string(), e.path().is_dir())).collect(),
        Err(_) => vec![],
    }
}

/// classify listing-order shapes of every directory in the tree
pub fn shapes(dir: &str, depth: usize, acc: &mut Acc) {
    let l = listing(dir);
    let seq: Vec<bool> = l.iter().map(|x| x.1).collect();
    let first_dir = seq.iter().position(|d| *d);
    let last_dir = seq.iter().rposition(|d| *d);
    let first_file = seq.iter().position(|d| !*d);
    let last_file = seq.iter().rposition(|d| !*d);
    if let (Some(fd), Some(ff)) = (first_dir, first_file) {
        if ff < last_dir.unwrap() {
            acc.cov("shape:file-listed-before-dir");
        }
        if fd < last_file.unwrap() {
            acc.cov("shape:dir-listed-before-file");
        }
        if seq.windows(3).any(|w| !w[0] && w[1] && !w[2]) || (ff < fd && fd < last_file.unwrap()) {
            acc.cov("shape:dir-between-files");
        }
    }
    if seq.iter().filter(|d| **d).count() >= 2 {
        acc.cov("shape:dir-and-dir");
    }
    if depth >= 3 {
        acc.cov("shape:depth>=3");
    }
    for (n, d) in l {
        if d {
            shapes(&format!("{}/{}", dir, n), depth + 1, acc);
        }
    }
}

pub type Finding = (String, String, Vec<i32>);

/// The property's definition executed directly: every eligible file at any depth analysed on its own.
pub fn expected_findings(root: &str, pats: &[Det], out: &mut Vec<Finding>) -> Result<(), String> {
    let mut names: Vec<(String, bool)> = listing(root);
    names.sort();
    for (n, is_dir) in names {
        let p = format!("{}/{}", root, n);
        if is_dir {
            expected_findings(&p, pats, out)?;
        } else if eligible(&n) && !dont_care_name(&n) {
            let text = std::fs::read_to_string(&p).map_err(|e| format!("read {}: {}", p, e))?;
            // every file in a thread of its own: whatever per-thread state the library may keep starts empty, so the
            // expectation for one file cannot be coloured by the files analysed before it
            let pats_v: Vec<Det> = pats.to_vec();
            let per_file: Result<Vec<(String, Vec<i32>)>, String> = std::thread::scope(|s| {
                std::thread::Builder::new()
                    .stack_size(1 << 30)
                    .spawn_scoped(s, || {
                        let mut v = vec![];
                        for d in &pats_v {
                            let lines = guarded(|| d.lines(&text, 0)).map_err(|e| format!("per-file analysis panicked: {:?}", e))?;
                            if !lines.is_empty() {
                                v.push((d.name().to_string(), lines.into_iter().collect()));
                            }
                        }
                        Ok(v)
                    })
                    .map_err(|e| e.to_string())?
                    .join()
                    .map_err(|_| "per-file analysis thread died".to_string())?
            });
            for (dn, lines) in per_file? {
                out.push((dn, n.clone(), lines));
            }
        }
    }
    Ok(())
}

pub fn observed_findings_inprocess(root: &str, pats: &[Det]) -> Result<Vec<Finding>, (String, String)> {
    use solstat::analyzer::{optimizations as o, qa as q, vulnerabilities as v};
    let os: Vec<o::Optimization> = pats.iter().filter_map(|d| if let Det::Opt(x) = d { Some(*x) } else { None }).collect();
    let vs: Vec<v::Vulnerability> = pats.iter().filter_map(|d| if let Det::Vuln(x) = d { Some(*x) } else { None }).collect();
    let qs: Vec<q::QualityAssurance> = pats.iter().filter_map(|d| if let Det::Qa(x) = d { Some(*x) } else { None }).collect();
    let mut out: Vec<Finding> = vec![];
    let r = root.to_string();
    let mo = guarded(std::panic::AssertUnwindSafe(|| o::analyze_dir(&r, os)))?;
    for (k, es) in mo {
        for (f, ls) in es {
            out.push((Det::Opt(k).name().to_string(), f, ls.into_iter().map(|l| l as i32).collect()));
        }
    }
    let mv = guarded(std::panic::AssertUnwindSafe(|| v::analyze_dir(&r, vs)))?;
    for (k, es) in mv {
        for (f, ls) in es {
            out.push((Det::Vuln(k).name().to_string(), f, ls.into_iter().map(|l| l as i32).collect()));
        }
    }
    let mq = guarded(std::panic::AssertUnwindSafe(|| q::analyze_dir(&r, qs)))?;
    for (k, es) in mq {
        for (f, ls) in es {
            out.push((Det::Qa(k).name().to_string(), f, ls.into_iter().map(|l| l as i32).collect()));
        }
    }
    Ok(out)
}

/// flatten to (pattern, file, line) triples, sorted
pub fn triples(fs: &[Finding]) -> Vec<(String, String, String)> {
    let mut v: Vec<(String, String, String)> = vec![];
    for (p, f, ls) in fs {
        for l in ls {
            v.push((p.clone(), f.clone(), l.to_string()));
        }
    }
    v.sort();
    v
}

// ---------------------------------------------------------------- the binary

pub fn solstat_bin() -> String {
    std::env::var("VMON_SOLSTAT_BIN").unwrap_or_else(|_| format!("{}/target/release/solstat", VERIF_DIR))
}

pub struct RunOut {
    pub code: Option<i32>,
    pub stderr: String,
    pub report: Option<Vec<u8>>,
}

pub fn run_solstat(cwd: &str, args: &[&str]) -> Result<RunOut, String> {
    run_solstat_env(cwd, args, &[])
}

/// like `run_solstat`, with additional environment variables for the child
pub fn run_solstat_env(cwd: &str, args: &[&str], envs: &[(String, String)]) -> Result<RunOut, String> {
    use std::io::Read;
    let mut child = Command::new(solstat_bin())
        .args(args)
        .envs(envs.iter().map(|(k, v)| (k.as_str(), v.as_str())))
        .current_dir(cwd)
        .stdin(Stdio::null())
        .stdout(Stdio::null())
        .stderr(Stdio::piped())
        .spawn()
        .map_err(|e| format!("cannot run {}: {}", solstat_bin(), e))?;
    let mut err_pipe = child.stderr.take();
    let reader = std::thread::spawn(move || {
        let mut buf = vec![];
        if let Some(p) = err_pipe.as_mut() {
            let _ = p.read_to_end(&mut buf);
        }
        buf
    });
    // a run normally needs milliseconds; one that has used 120 s of CPU time (not wall clock) is ended and the
    // case is inconclusive for the calling check (termination itself is C04's subject)
    let pid = child.id();
    let mut polls = 0u64;
    let status = loop {
        match child.try_wait() {
            Ok(Some(st)) => break st,
            Ok(None) => {}
            Err(e) => return Err(format!("waiting for solstat failed: {}", e)),
        }
        polls += 1;
        std::thread::sleep(std::time::Duration::from_millis(if polls < 200 { 1 } else { 20 }));
        if polls % 100 == 0 {
            let ticks = std::fs::read_to_string(format!("/proc/{}/stat", pid))
                .ok()
                .and_then(|st| st.rfind(')').map(|c| st[c + 1..].split_whitespace().map(|x| x.to_string()).collect::<Vec<_>>()))
                .map(|f| f.get(11).and_then(|x| x.parse::<u64>().ok()).unwrap_or(0) + f.get(12).and_then(|x| x.parse::<u64>().ok()).unwrap_or(0))
                .unwrap_or(0);
            if ticks > 120 * 100 {
                let _ = child.kill();
                let _ = child.wait();
                return Err("a solstat run was ended after 120 s of CPU time without finishing".to_string());
            }
        }
    };
    let stderr = reader.join().unwrap_or_default();
    let report = std::fs::read(format!("{}/solstat_report.md", cwd)).ok();
    Ok(RunOut { code: status.code(), stderr: String::from_utf8_lossy(&stderr).to_string(), report })
}

pub fn toml_text(path: Option<&str>, o: &[String], v: &[String], q: &[String]) -> String {
    let list = |xs: &[String]| xs.iter().map(|x| format!("{:?}", x)).collect::<Vec<_>>().join(", ");
    format!("path = {:?}\noptimizations = [{}]\nvulnerabilities = [{}]\nqa = [{}]\n", path.unwrap_or("./contracts"), list(o), list(v), list(q))
}

// ---------------------------------------------------------------- program pool

pub struct Pool {
    pub progs: Vec<(String, String)>,
}

/// corpus programs on which no detector panics (so that directory monitors do not conflate with C04)
pub fn pool() -> Pool {
    let mut progs = vec![];
    for p in corpus::load() {
        let ok = dets::ALL.iter().all(|(_, d)| guarded(|| d.lines(&p.text, 0)).is_ok());
        if ok && p.text.len() < 20_000 {
            progs.push((p.name.clone(), p.text.clone()));
        }
    }
    Pool { progs }
}

fn ident(rng: &Rng) -> String {
    let heads = ["A", "B", "Token", "Vault", "lib", "x", "Main", "Z9", "core_util", "合约"];
    format!("{}{}", rng.ps(&heads), rng.below(50))
}

/// random tree of eligible files only (C03): names `<ident>.sol`, sub-directories at random positions
pub fn gen_tree_eligible(rng: &Rng, pool: &Pool, depth: usize, max_files: usize, max_dirs: usize) -> Vec<Ent> {
    // the text behind every `Twin.sol` of this tree
    let twin = rng.pick(&pool.progs).1.clone();
    gen_tree_eligible_in(rng, pool, depth, max_files, max_dirs, &twin)
}

/// byte-preserving edits that change findings (`>=` -> `> `, `++` -> `--`, ...): a text of the same length and the
/// same line layout with other findings; None if no edit applies or the result does not parse
pub fn same_length_edit(text: &str) -> Option<String> {
    let edits: [(&str, &str); 8] = [(">=", "> "), ("<=", "< "), ("&&", "||"), (" * 2", " * 3"), (" / 4", " / 5"), ("++", "--"), ("== address(0)", "== address(1)"), ("transfer(", "transfeR(")];
    let mut t = text.to_string();
    let mut changed = false;
    for (a, b) in edits.iter() {
        if let Some(p) = t.find(a) {
            t.replace_range(p..p + a.len(), b);
            changed = true;
        }
    }
    if changed && t.len() == text.len() && t != text && crate::dets::parses(&t) {
        Some(t)
    } else {
        None
    }
}

/// files that hold no definition at all (and no `{`): empty, white space only, a pragma, a comment, an import
pub const MINIMAL_FILES: [&str; 8] =
    ["", "\n\n\n", "   \n\t\n", "pragma solidity ^0.8.0;\n", "// SPDX-License-Identifier: MIT\n", "import \"./X.sol\";\n", "pragma solidity 0.7.6;\n\n\n", "/* nothing\n   here */\n"];

fn gen_tree_eligible_in(rng: &Rng, pool: &Pool, depth: usize, max_files: usize, max_dirs: usize, twin: &str) -> Vec<Ent> {
    let mut ents: Vec<Ent> = vec![];
    let nf = rng.range(if depth == 0 { 1 } else { 0 }, max_files);
    let nd = if depth >= 4 { 0 } else { rng.range(0, max_dirs) };
    let mut used: BTreeSet<String> = BTreeSet::new();
    for _ in 0..nf {
        let mut n = format!("{}.sol", ident(rng));
        if rng.chance(1, 6) {
            n = "Same.sol".to_string();
        }
        // eligible names of unusual shape: several dots, a leading dot, spaces, very short stems
        if rng.chance(1, 6) {
            let k = rng.below(50);
            n = match rng.below(12) {
                // characters that are separators, drive letters, wildcards or escapes elsewhere but ordinary bytes of a name here
                9 => format!("tokens{}ERC{}.sol", rng.ps(&["\\", ":", "*", "?", "|", "\"", "'", "%2F", "#", ";", "&", "$", "~", "\\\\", "..", "<", ">", "`", "=", "@", "^", "+", ",", "!", "(", ")", "[", "]", "{", "}"]), k),
                10 => format!("{}{}.sol", rng.ps(&["\\", "C:\\src\\", "-", "--path", "~", "#", "%", "$HOME", "*", "\u{130}", "\u{212A}", "\u{1E9E}", "\u{FB03}"]), k),
                11 => format!("Vault{}{}.sol", k, rng.ps(&["\\", ".\\", "\\.", "\u{130}", " ", "\u{A0}", "\u{200B}", "\u{FEFF}"])),
                0 => format!("Token{}.flat.sol", k),
                1 => format!(".Hidden{}.sol", k),
                2 => format!("ERC20.permit.v{}.sol", k),
                3 => format!("with space {}.sol", k),
                4 => "T.sol".to_string(),
                5 => "t.sol".to_string(),
                6 => "sol.sol".to_string(),
                7 => format!("v1.{}.sol", k),
                _ => format!("{}.SOL.sol", ident(rng)),
            };
        }
        if used.insert(n.clone()) {
            let (_, text) = rng.pick(&pool.progs);
            ents.push(Ent::File { name: n.clone(), bytes: text.clone().into_bytes() });
            // now and then the same content again under a name that differs only by a leading zero in its number
            if rng.chance(1, 10) {
                if let Some(i) = n.find(|c: char| c.is_ascii_digit()) {
                    let n3 = format!("{}0{}", &n[..i], &n[i..]);
                    if used.insert(n3.clone()) {
                        ents.push(Ent::File { name: n3, bytes: text.clone().into_bytes() });
                    }
                }
            }
            // now and then the same content again under a name that differs only in letter case
            if rng.chance(1, 8) {
                let n2 = if n.chars().next().map(|c| c.is_ascii_uppercase()).unwrap_or(false) { n.to_lowercase() } else { n.to_uppercase().replace(".SOL", ".sol") };
                if n2 != n && n2.ends_with(".sol") && used.insert(n2.clone()) {
                    ents.push(Ent::File { name: n2, bytes: text.clone().into_bytes() });
                }
            }
        }
    }
    // namesakes of equal byte length and different line layout: `Twin.sol` is the tree's twin text with j empty
    // lines in front and 3 - j behind
    if rng.chance(1, 3) && used.insert("Twin.sol".to_string()) {
        let j = rng.below(4) as usize;
        // ... and, half of the time, with byte-preserving edits that change its findings
        let body = if rng.chance(1, 2) { same_length_edit(twin).unwrap_or_else(|| twin.to_string()) } else { twin.to_string() };
        let text = format!("{}{}{}", "\n".repeat(j), body, "\n".repeat(3 - j));
        ents.push(Ent::File { name: "Twin.sol".to_string(), bytes: text.into_bytes() });
    }
    // files without any definition, listed among the others
    if rng.chance(1, 4) {
        let n = format!("Blank{}.sol", rng.below(4));
        if used.insert(n.clone()) {
            ents.push(Ent::File { name: n, bytes: rng.ps(&MINIMAL_FILES).as_bytes().to_vec() });
        }
    }
    // `._<name>` next to `<name>` (eligible like any other `.sol` name)
    if rng.chance(1, 8) {
        if let Some(Ent::File { name, .. }) = ents.first() {
            let n = format!("._{}", name);
            if used.insert(n.clone()) {
                let (_, text) = rng.pick(&pool.progs);
                ents.push(Ent::File { name: n, bytes: text.clone().into_bytes() });
            }
        }
    }
    // a second name (hard link) for one of the files, eligible like the first
    if rng.chance(1, 8) {
        if let Some(Ent::File { name, .. }) = ents.iter().find(|e| matches!(e, Ent::File { .. })) {
            let n = format!("Linked{}.sol", rng.below(20));
            let of = name.clone();
            if used.insert(n.clone()) {
                ents.push(Ent::Hard { name: n, of });
            }
        }
    }
    // a large file: 9 KiB, 70 KiB or (now and then) 1.5 MiB of comment lines in front of ordinary content; the comment
    // lines are mostly multi-byte characters behind a first line of random length, so that characters straddle every
    // "round" offset in some file
    if rng.chance(1, 10) {
        let n = format!("Large{}.sol", rng.below(20));
        if used.insert(n.clone()) {
            let lines = match rng.below(12) {
                0 => 20000,
                1..=5 => 900,
                _ => 120,
            };
            let nl = if rng.chance(1, 3) { "\r\n" } else { "\n" };
            let mut t = format!("// {}{}", "x".repeat(rng.below(40)), nl);
            for i in 0..lines {
                if rng.chance(1, 4) {
                    t.push_str(&format!("// filler line {:06} x++; a >= b{}", i, nl));
                } else {
                    t.push_str(&format!("// 合约合约合约合约合约合约合约合约 é {:06} 合约合约合约合约{}", i, nl));
                }
            }
            t.push_str(&rng.pick(&pool.progs).1);
            ents.push(Ent::File { name: n, bytes: t.into_bytes() });
        }
    }
    // large twins: more than 128 KiB, the same length, the same first and last 64 KiB, another middle
    if rng.chance(1, 5) {
        let n = format!("BigTwin{}.sol", rng.below(3));
        if used.insert(n.clone()) {
            let body = if rng.chance(1, 2) { same_length_edit(twin).unwrap_or_else(|| twin.to_string()) } else { twin.to_string() };
            let j = rng.below(4) as usize;
            let mut t = String::new();
            for i in 0..1700 {
                t.push_str(&format!("// leading filler line {:06} x++; a >= b\n", i));
            }
            t.push_str(&format!("{}{}{}", "\n".repeat(j), body, "\n".repeat(3 - j)));
            for i in 0..1700 {
                t.push_str(&format!("// trailing filler line {:06} x++; a >= b\n", i));
            }
            ents.push(Ent::File { name: n, bytes: t.into_bytes() });
        }
    }
    // a file next to something that looks like a copy of it (other content)
    if rng.chance(1, 8) {
        if let Some(Ent::File { name, .. }) = ents.iter().find(|e| matches!(e, Ent::File { name, .. } if name.ends_with(".sol") && name.is_ascii())) {
            let stem = name.trim_end_matches(".sol").to_string();
            let n = format!("{}{}.sol", stem, rng.ps(&["_flat", "_flattened", "Copy", ".old", " (copy)", "-1", "_v2", ".min"]));
            if used.insert(n.clone()) {
                let (_, text) = rng.pick(&pool.progs);
                ents.push(Ent::File { name: n, bytes: text.clone().into_bytes() });
            }
        }
    }
    // a chain of 45-60 nested one-letter directories around a small sub-tree
    if depth == 0 && rng.chance(1, 16) {
        let mut kids = gen_tree_eligible_in(rng, pool, 3, 2, 1, twin);
        for lvl in 0..rng.range(45, 60) {
            kids = vec![Ent::Dir { name: ((b'a' + (lvl % 26) as u8) as char).to_string(), kids }];
        }
        if let Some(Ent::Dir { name, .. }) = kids.first() {
            if used.insert(name.clone()) {
                ents.extend(kids);
            }
        }
    }
    // clearly ineligible files with parseable, finding-rich content (they must simply be skipped)
    if rng.chance(1, 4) {
        for n in ["README.md", "Helper.t.sol", "notes.txt", "Old.sol.bak", "foundry.toml", "package.json", "remappings.txt"] {
            if rng.chance(1, 2) && used.insert(n.to_string()) {
                let (_, text) = rng.pick(&pool.progs);
                ents.push(Ent::File { name: n.to_string(), bytes: text.clone().into_bytes() });
            }
        }
    }
    for _ in 0..nd {
        let n = if rng.chance(1, 8) {
            format!("{}.sol", ident(rng))
        } else if rng.chance(1, 5) {
            rng.ps(&["lib", "node_modules", "test", "script", "out", "mocks"]).to_string()
        } else {
            ident(rng)
        };
        if used.insert(n.clone()) {
            ents.push(Ent::Dir { name: n, kids: gen_tree_eligible_in(rng, pool, depth + 1, max_files.min(4), max_dirs.min(2), twin) });
        }
    }
    rng.shuffle(&mut ents);
    ents
}

/// compare two finding multisets per pattern; returns (lost, foreign)
pub fn diff(exp: &[Finding], got: &[Finding]) -> (Vec<Finding>, Vec<Finding>) {
    let mut e: BTreeMap<Finding, i64> = BTreeMap::new();
    for f in exp {
        *e.entry(f.clone()).or_insert(0) += 1;
    }
    for f in got {
        *e.entry(f.clone()).or_insert(0) -= 1;
    }
    let lost = e.iter().filter(|(_, c)| **c > 0).map(|(f, _)| f.clone()).collect();
    let foreign = e.iter().filter(|(_, c)| **c < 0).map(|(f, _)| f.clone()).collect();
    (lost, foreign)
}

pub fn all_dets() -> Vec<Det> {
    dets::ALL.iter().map(|(_, d)| *d).collect()
}

pub fn parse_report_triples(text: &str, table: &[(&'static str, &'static str, String, Option<&'static str>)]) -> Result<Vec<(String, String, String)>, String> {
    let p = report::parse_report(text, table)?;
    let mut got = vec![];
    for part in [&p.vuln, &p.opt, &p.qa].into_iter().flatten() {
        got.extend(report::flatten_part(part));
    }
    got.sort();
    Ok(got)
}

// ---------------------------------------------------------------- C13, cross-process part

pub fn c13_binary_part(ctx: &Ctx, acc: &mut Acc) {
    let pool = pool();
    if pool.progs.len() < 10 {
        acc.inconclusive("program pool too small");
        return;
    }
    let n = ctx.tier.pick(30u64, 4000u64);
    let reps = ctx.tier.pick(6usize, 8usize);
    run_workload(ctx, acc, "binary-determinism", n, |k, rng, acc| {
        let ents = gen_tree_eligible(rng, &pool, 0, 6, 2);
        let base = scratch_dir("c13");
        let mut reports: Vec<(String, Vec<u8>)> = vec![];
        // runs with a toml that lists two names twice: compared with each other (the duplicated names are in every one of them)
        let mut toml_reports: Vec<Vec<u8>> = vec![];
        for r in 0..reps {
            // copy r: same content, different creation order => different listing order on tmpfs
            let root = format!("{}/copy{}", base, r);
            std::fs::create_dir_all(format!("{}/contracts", root)).unwrap();
            let mut e2 = ents.clone();
            fn reorder(es: &mut Vec<Ent>, rng: &Rng) {
                rng.shuffle(es);
                for e in es.iter_mut() {
                    if let Ent::Dir { kids, .. } = e {
                        reorder(kids, rng);
                    }
                }
            }
            let variant = if r == 0 {
                "same-tree-first-run"
            } else if r == 1 {
                "same-tree-second-run"
            } else if r % 2 == 0 {
                reorder(&mut e2, rng);
                "copy-created-in-another-order"
            } else {
                "permuted-toml-pattern-lists"
            };
            let run_root = if r == 1 { format!("{}/copy0", base) } else { root.clone() };
            if r != 1 {
                build(&format!("{}/contracts", root), &e2);
            }
            let mut args: Vec<String> = vec![];
            if variant == "permuted-toml-pattern-lists" {
                let mut o: Vec<String> = patterns_of("optimizations").iter().map(|s| s.to_string()).collect();
                let mut v: Vec<String> = patterns_of("vulnerabilities").iter().map(|s| s.to_string()).collect();
                let mut q: Vec<String> = patterns_of("qa").iter().map(|s| s.to_string()).collect();
                // the same multiset of names in every such variant (sstore and floating_pragma listed twice), in another order
                o.push("sstore".to_string());
                v.push("floating_pragma".to_string());
                rng.shuffle(&mut o);
                rng.shuffle(&mut v);
                rng.shuffle(&mut q);
                std::fs::write(format!("{}/cfg.toml", run_root), toml_text(None, &o, &v, &q)).unwrap();
                args.push("--toml".into());
                args.push("cfg.toml".into());
                // the same listing order as copy 0 is not guaranteed; build used e2 == ents order here
            }
            let a: Vec<&str> = args.iter().map(|s| s.as_str()).collect();
            match run_solstat(&run_root, &a) {
                Ok(out) => {
                    acc.eval();
                    acc.cov(&format!("binary-run:{}", variant));
                    if out.code != Some(0) || out.report.is_none() {
                        acc.inconclusive(format!("solstat failed on a pool tree: code {:?} stderr {}", out.code, trunc(&out.stderr, 200)));
                        break;
                    }
                    if variant == "permuted-toml-pattern-lists" {
                        toml_reports.push(out.report.unwrap());
                    } else {
                        reports.push((variant.to_string(), out.report.unwrap()));
                    }
                }
                Err(e) => {
                    acc.inconclusive(e);
                    break;
                }
            }
        }
        for tr in toml_reports.iter().skip(1) {
            if tr != &toml_reports[0] {
                let a = String::from_utf8_lossy(&toml_reports[0]).to_string();
                let b = String::from_utf8_lossy(tr).to_string();
                let d = a.bytes().zip(b.bytes()).position(|(x, y)| x != y).unwrap_or(a.len().min(b.len()));
                acc.violation("order:config", json!({"tree": to_json(&ents), "note": "two toml files listing the same multiset of names in different orders", "first_difference_at_byte": d, "report_a": around(&a, d, 80, 300), "report_b": around(&b, d, 80, 300)}));
                break;
            }
        }
        // a working directory that already holds the report of a *different* finding set of the same rendered length:
        // the same tree with one top-level file renamed to a name of equal length, analysed first; then the name is restored
        if reports.len() >= 2 {
            if let Some(Ent::File { name, .. }) = ents.iter().find(|e| matches!(e, Ent::File { name, .. } if name.is_ascii() && name.len() > 4)) {
                let root = format!("{}/dirty", base);
                std::fs::create_dir_all(format!("{}/contracts", root)).unwrap();
                build(&format!("{}/contracts", root), &ents);
                let mut chars: Vec<char> = name.chars().collect();
                chars[0] = if chars[0] == 'Q' { 'R' } else { 'Q' };
                let other: String = chars.into_iter().collect();
                let (a, b) = (format!("{}/contracts/{}", root, name), format!("{}/contracts/{}", root, other));
                if !file_exists(&b) && std::fs::rename(&a, &b).is_ok() {
                    let first = run_solstat(&root, &[]);
                    let _ = std::fs::rename(&b, &a);
                    if let (Ok(f1), Ok(second)) = (first, run_solstat(&root, &[])) {
                        if f1.code == Some(0) && second.code == Some(0) {
                            acc.eval();
                            acc.cov("binary-run:cwd-holds-equal-length-report-of-other-findings");
                            if let Some(rep) = second.report {
                                reports.push(("cwd-holds-equal-length-report-of-other-findings".to_string(), rep));
                            }
                        }
                    }
                }
            }
        }
        // a working directory that holds exactly the expected report, but with CRLF line ends: the run still writes its own bytes
        if reports.len() >= 2 {
            let root = format!("{}/crlf", base);
            std::fs::create_dir_all(format!("{}/contracts", root)).unwrap();
            build(&format!("{}/contracts", root), &ents);
            let crlf = String::from_utf8_lossy(&reports[0].1).replace('\n', "\r\n");
            std::fs::write(format!("{}/solstat_report.md", root), crlf).unwrap();
            if let Ok(o) = run_solstat(&root, &[]) {
                if o.code == Some(0) {
                    acc.eval();
                    acc.cov("binary-run:cwd-holds-the-expected-report-with-crlf");
                    if let Some(rep) = o.report {
                        reports.push(("cwd-holds-equal-length-report-of-other-findings".to_string(), rep));
                    }
                }
            }
        }
        if reports.len() >= 2 {
            let nfiles = {
                fn count(es: &[Ent]) -> usize {
                    es.iter().map(|e| match e { Ent::File { .. } => 1, Ent::Dir { kids, .. } => count(kids), Ent::Link { .. } | Ent::Hard { .. } => 1 }).sum()
                }
                count(&ents)
            };
            if nfiles >= 2 {
                acc.nontrivial_h(hash_str(&to_json(&ents).to_string()));
            }
            for (variant, rep) in reports.iter().skip(1) {
                if rep != &reports[0].1 {
                    let sig = match variant.as_str() {
                        "same-tree-second-run" => "order:process-randomness",
                        "copy-created-in-another-order" => "order:discovery-order",
                        "cwd-holds-equal-length-report-of-other-findings" => "report-depends-on-previous-report",
                        _ => "order:config",
                    };
                    let a = String::from_utf8_lossy(&reports[0].1).to_string();
                    let b = String::from_utf8_lossy(rep).to_string();
                    let d = a.bytes().zip(b.bytes()).position(|(x, y)| x != y).unwrap_or(a.len().min(b.len()));
                    acc.violation(
                        sig,
                        json!({"tree": to_json(&ents), "variant": variant, "first_difference_at_byte": d, "report_a": around(&a, d, 80, 300), "report_b": around(&b, d, 80, 300)}),
                    );
                    // one signature per variant kind is enough for this tree
                }
            }
        }
        let _ = std::fs::remove_dir_all(&base);
        if k == 0 {
            acc.sample(json!({"binary_tree": to_json(&ents), "runs": reps}));
        }
    });
}

pub fn file_exists(p: &str) -> bool {
    Path::new(p).exists()
}
