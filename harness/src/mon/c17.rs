//! C17 — findings are invariant under re-layout and commenting of the source.
use crate::common::*;
use crate::corpus;
use crate::dets;
use crate::gast::Tok;
use crate::gen::Cfg;
use crate::layout::{Layout, NAMED};
use crate::progsrc::{self, TokProg};
use serde_json::json;
use std::collections::BTreeSet;

fn is_string_tok(t: &str) -> bool {
    let b = t.as_bytes();
    if b.is_empty() {
        return false;
    }
    (b[0] == b'"' || b[0] == b'\'') && b.len() >= 2 && b[b.len() - 1] == b[0] || (t.starts_with("unicode\"") || t.starts_with("unicode'"))
}

/// same tokens, but every plain/unicode string literal's content replaced by 'x' of the same byte length
fn inert_strings(toks: &[Tok]) -> (Vec<Tok>, usize) {
    let mut n = 0;
    let out = toks
        .iter()
        .enumerate()
        .map(|(i, t)| {
            // import paths and pragma values are not string literal expressions; leave them alone
            let after_import = i > 0 && (toks[i - 1].s == "import" || toks[i - 1].s == "from");
            if is_string_tok(&t.s) && !t.ws_only_before && !after_import {
                let (prefix, rest) = if t.s.starts_with("unicode") { ("unicode", &t.s[7..]) } else { ("", &t.s[..]) };
                let q = &rest[..1];
                let inner_len = rest.len() - 2;
                if inner_len > 0 && rest[1..rest.len() - 1].chars().any(|c| c != 'x') {
                    n += 1;
                }
                Tok { s: format!("{}{}{}{}", prefix, q, "x".repeat(inner_len), q), ws_only_before: t.ws_only_before, glue_ok: t.glue_ok }
            } else {
                t.clone()
            }
        })
        .collect();
    (out, n)
}

fn check_prog(tp: &TokProg, layouts: &[Layout], rng: &Rng, acc: &mut Acc) {
    let l0 = match progsrc::lay_checked(tp, Layout::OneTokenPerLine, rng, acc) {
        Some(l) => l,
        None => return,
    };
    // token sets per detector from the one-token-per-line layout (line == token index + 1)
    let mut tsets: Vec<Option<BTreeSet<usize>>> = vec![];
    for (_, det) in dets::ALL.iter() {
        match guarded(|| det.lines(&l0.text, 0)) {
            Ok(lines) => {
                let mut ts = BTreeSet::new();
                let mut bad = false;
                for l in &lines {
                    if *l < 1 || (*l as usize) > tp.toks.len() {
                        bad = true;
                    } else {
                        ts.insert((*l - 1) as usize);
                    }
                }
                if bad {
                    acc.violation("l0:line-out-of-range", json!({"program": tp.name, "lines": lines, "tokens": tp.toks.len()}));
                    tsets.push(None);
                } else {
                    tsets.push(Some(ts));
                }
            }
            Err(_) => {
                acc.cov("detector-panicked(skipped, see C04)");
                tsets.push(None);
            }
        }
    }
    let any_nonempty = tsets.iter().any(|t| t.as_ref().map(|s| !s.is_empty()).unwrap_or(false));
    if any_nonempty {
        acc.nontrivial_str(&l0.text);
    }
    for l in layouts {
        if *l == Layout::OneTokenPerLine {
            continue;
        }
        let laid = match progsrc::lay_checked(tp, *l, rng, acc) {
            Some(x) => x,
            None => continue,
        };
        for (di, (dname, det)) in dets::ALL.iter().enumerate() {
            let ts = match &tsets[di] {
                Some(t) => t,
                None => continue,
            };
            let got = match guarded(|| det.lines(&laid.text, 0)) {
                Ok(x) => x,
                Err((m, at)) => {
                    acc.violation(format!("{}:panics-only-in-layout", dname), json!({"program": tp.name, "layout": l.name(), "panic": m, "at": at, "text": trunc(&laid.text, 3000)}));
                    continue;
                }
            };
            acc.eval();
            let exp: BTreeSet<i32> = ts.iter().map(|t| laid.line[*t]).collect();
            if !ts.is_empty() {
                acc.cov("cases-with-findings");
            }
            if got != exp {
                let last = dets::ref_line(&laid.text, laid.text.len());
                let diff: Vec<i32> = got.symmetric_difference(&exp).copied().collect();
                let sig = if diff.iter().all(|d| *d == 0 || *d == last) && !laid.text.ends_with('\n') {
                    "conv:last-line-unterminated".to_string()
                } else if got.len() > exp.len() {
                    format!("{}:extra-finding-in-layout", dname)
                } else if got.len() < exp.len() {
                    format!("{}:lost-finding-in-layout", dname)
                } else {
                    format!("{}:moved-finding", dname)
                };
                acc.violation(
                    sig,
                    json!({"program": tp.name, "layout": l.name(), "detector": dname, "flagged_token_indices": ts, "flagged_tokens": ts.iter().map(|t| tp.toks[*t].s.clone()).collect::<Vec<_>>(),
                           "expected_lines": exp, "reported_lines": got, "text": trunc(&laid.text, 4000)}),
                );
            }
        }
    }
    // strings are inert: same-length inert strings give identical findings
    let (inert, changed) = inert_strings(&tp.toks);
    if changed > 0 {
        let tp2 = TokProg { name: format!("{}~inert-strings", tp.name), toks: inert, rendered: None, file: None };
        if let Some(l2) = progsrc::lay_checked(&tp2, Layout::OneTokenPerLine, rng, acc) {
            for (di, (dname, det)) in dets::ALL.iter().enumerate() {
                let ts = match &tsets[di] {
                    Some(t) => t,
                    None => continue,
                };
                if let Ok(got) = guarded(|| det.lines(&l2.text, 0)) {
                    acc.eval();
                    acc.cov("string-inertness-comparisons");
                    let got_t: BTreeSet<usize> = got.iter().filter(|l| **l >= 1).map(|l| (*l - 1) as usize).collect();
                    if &got_t != ts {
                        acc.violation(
                            format!("{}:string-content-influences-finding", dname),
                            json!({"program": tp.name, "detector": dname, "tokens_with_original_strings": ts, "tokens_with_inert_strings": got_t, "text": trunc(&l0.text, 3000)}),
                        );
                    }
                }
            }
        }
    }
}

pub fn run(ctx: &Ctx) -> i32 {
    let mut acc = Acc::default();
    let mut meta = Meta::new(
        "programs: corpus (tokenised by solang's lexer), token-level mutants, generated programs. For each program the one-token-per-line layout names the flagged \
         tokens per detector; every other layout (single line, compact, CRLF, no final newline, random gaps with LF/CRLF/CR/blank lines/multi-byte white space/code-like \
         line, block and doc comments, multi-byte prefix) must report exactly the lines of those tokens. evaluation = one (program, layout, detector) comparison; \
         non-trivial = program in which at least one detector flags something; distinct by program text",
    );
    let progs = corpus::load();
    let n_layouts_random = ctx.tier.pick(2usize, 10usize);
    let mut layouts: Vec<Layout> = NAMED.to_vec();
    for _ in 0..n_layouts_random {
        layouts.push(Layout::Random);
        layouts.push(Layout::RandomWithPrefix);
    }
    run_workload(ctx, &mut acc, "corpus", progs.len() as u64, |k, rng, acc| {
        let p = &progs[k as usize];
        if let Some(tp) = progsrc::from_corpus(p, acc) {
            check_prog(&tp, &layouts, rng, acc);
            let nm = ctx.tier.pick(2, 12);
            for _ in 0..nm {
                if let Some(m) = progsrc::mutate(&tp, rng) {
                    acc.cov("programs:corpus-mutants");
                    check_prog(&m, &layouts[..layouts.len().min(10)], rng, acc);
                }
            }
        }
    });
    // files with hundreds of findings per detector (600, 1500) and multi-byte comments: the same relation
    let n_many = ctx.tier.pick(2u64, 8u64);
    run_workload(ctx, &mut acc, "many-findings", n_many, |k, rng, acc| {
        let n = if k % 2 == 0 { 600 } else { 1500 };
        let mut t = String::from("pragma solidity ^0.8.0;\n// 合约 é 合约合约合约 😀😀 préambule\ncontract Many {\n    uint256 x;\n    uint256[] arr;\n    function f(uint256 a, uint256 b) public {\n");
        for i in 0..n {
            match (i + rng.below(3)) % 4 {
                0 => t.push_str(&format!("        x++; /* é {} */\n", i)),
                1 => t.push_str(&format!("        arr[0] = arr[0] + {}; // 合约\n", i % 7)),
                2 => t.push_str(&format!("        require(a >= b && b != {}, \"é\");\n", i)),
                _ => t.push_str(&format!("        x = a / {} * 2;\n", (i % 5) + 2)),
            }
        }
        t.push_str("    }\n}\n");
        let p = corpus::Prog { name: format!("many-findings#{}", k), text: t };
        if let Some(tp) = progsrc::from_corpus(&p, acc) {
            acc.cov("programs:many-findings");
            check_prog(&tp, &layouts[..layouts.len().min(6)], rng, acc);
        }
    });
    let n = ctx.tier.pick(200u64, 4000u64);
    run_workload(ctx, &mut acc, "generated", n, |k, rng, acc| {
        let mut cfg = if k % 4 == 0 { Cfg::hostile() } else { Cfg::normal() };
        if cfg.pragma.is_some() {
            cfg.pragma = Some(rng.ps(&["0.8.17", "0.7.6", "0.8.3", "^0.6.12", "0.8.4", ">=0.7.0 <0.9.0", ">=0.8.0 <0.8.4", ">= 0.6.0 < 0.8.5", "0.7.6 || ^0.8.4", "^0.7.0 || ^0.8.0", ">=0.6.2 <0.7.0 || ^0.8.0", ">=0.8.4 <0.7.9", "~0.8.3", "^ 0.8.4"]).to_string());
            cfg.safemath = rng.chance(1, 3);
        }
        if let Some(tp) = progsrc::generated(k, rng, cfg, acc) {
            check_prog(&tp, &layouts, rng, acc);
            if k == 0 {
                if let Some(l) = progsrc::lay_checked(&tp, Layout::Random, rng, acc) {
                    acc.sample(json!({"program": tp.name, "layout": "random", "text": trunc(&l.text, 1500)}));
                }
            }
        }
    });
    if ctx.replay.is_none() {
        if acc.cov_get("cases-with-findings") < 1000 {
            acc.inconclusive(format!("coverage floor: only {} (program, layout, detector) cases had findings", acc.cov_get("cases-with-findings")));
        }
        for g in ["gap:crlf", "gap:cr", "gap:multibyte-ws", "gap:block-comment", "gap:line-comment", "gap:blank-line", "layout:no_final_newline", "layout:single_line"] {
            if acc.cov_get(g) == 0 {
                acc.inconclusive(format!("coverage floor: {} never produced", g));
            }
        }
    }
    meta.assumptions = vec![
        "every produced text is re-lexed and must give the same token sequence, and must parse, else the case is discarded (count reported)".into(),
        "in the one-token-per-line layout line n holds token n-1, so reported lines name tokens".into(),
    ];
    finish(ctx, acc, meta)
}
