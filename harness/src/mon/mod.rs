pub mod worker;
pub mod c01;
pub mod c02;
pub mod c04;
pub mod c03;
pub mod c10;
pub mod specmon;
pub mod c14;
pub mod c15;
pub mod c16;
pub mod c18;
pub mod c11;
pub mod c12;
pub mod c13;
pub mod tree;
pub mod c17;
pub mod c19;

use crate::common::*;

pub const PROPS: [&str; 19] = [
    "C01", "C02", "C03", "C04", "C05", "C06", "C07", "C08", "C09", "C10", "C11", "C12", "C13", "C14", "C15", "C16", "C17",
    "C18", "C19",
];

pub fn run(ctx: &Ctx) -> i32 {
    match ctx.prop {
        "C01" => c01::run(ctx),
        "C02" => c02::run(ctx),
        "C04" => c04::run(ctx),
        "C03" => c03::run(ctx),
        "C05" => specmon::run_c05(ctx),
        "C06" => specmon::run_c06(ctx),
        "C07" => specmon::run_c07(ctx),
        "C08" => specmon::run_c08(ctx),
        "C09" => specmon::run_c09(ctx),
        "C10" => c10::run(ctx),
        "C14" => c14::run(ctx),
        "C15" => c15::run(ctx),
        "C16" => c16::run(ctx),
        "C18" => c18::run(ctx),
        "C11" => c11::run(ctx),
        "C12" => c12::run(ctx),
        "C13" => c13::run(ctx),
        "C17" => c17::run(ctx),
        "C19" => c19::run(ctx),
        other => {
            println!("INCONCLUSIVE property={} reason=monitor-not-built", other);
            2
        }
    }
}
