//! C15 — each (file, pattern) verdict is independent of everything else in the run.
use crate::common::*;
use crate::dets::{self, Det};
use crate::gen::Cfg;
use crate::layout::Layout;
use crate::mon::c11::scratch_dir;
use crate::mon::tree::*;
use crate::progsrc;
use serde_json::{json, Value};
use std::collections::{BTreeMap, BTreeSet};
use std::io::{Read, Write};
use std::sync::{Arc, Barrier};

type Lines = BTreeSet<i32>;

/// worker: text on stdin -> JSON {detector: [lines] | "panic"} ; exactly one call per pattern in a fresh process
pub fn worker_baseline(args: &[String]) -> i32 {
    // deeply nested files need a deep stack (same size as the monitors' worker threads)
    let a = args.to_vec();
    std::thread::Builder::new().stack_size(1 << 30).spawn(move || worker_baseline_inner(&a)).map(|h| h.join().unwrap_or(3)).unwrap_or(3)
}

fn worker_baseline_inner(_args: &[String]) -> i32 {
    let mut s = String::new();
    std::io::stdin().read_to_string(&mut s).unwrap();
    let mut m = serde_json::Map::new();
    for (n, d) in dets::ALL.iter() {
        match guarded(|| d.lines(&s, 0)) {
            Ok(l) => {
                m.insert(n.to_string(), json!(l));
            }
            Err(_) => {
                m.insert(n.to_string(), json!("panic"));
            }
        }
    }
    println!("{}", Value::Object(m));
    0
}

fn baseline(text: &str) -> Result<BTreeMap<&'static str, Option<Lines>>, String> {
    let exe = std::path::PathBuf::from("/proc/self/exe"); // the running image itself, even if the file on disk has been rebuilt meanwhile
    let mut child = std::process::Command::new(exe)
        .args(["worker", "baseline"])
        .stdin(std::process::Stdio::piped())
        .stdout(std::process::Stdio::piped())
        .stderr(std::process::Stdio::null())
        .spawn()
        .map_err(|e| e.to_string())?;
    child.stdin.take().unwrap().write_all(text.as_bytes()).map_err(|e| e.to_string())?;
    let out = child.wait_with_output().map_err(|e| e.to_string())?;
    if !out.status.success() {
        return Err(format!("baseline worker failed: {:?}", out.status));
    }
    let j: Value = serde_json::from_slice(&out.stdout).map_err(|e| e.to_string())?;
    let mut m = BTreeMap::new();
    for (n, _) in dets::ALL.iter() {
        let v = &j[*n];
        if v.is_array() {
            m.insert(*n, Some(v.as_array().unwrap().iter().filter_map(|x| x.as_i64()).map(|x| x as i32).collect()));
        } else {
            m.insert(*n, None);
        }
    }
    Ok(m)
}

struct FileSet {
    names: Vec<String>,
    texts: Vec<String>,
    base: Vec<BTreeMap<&'static str, Option<Lines>>>,
}

fn build_fileset(ctx: &Ctx, acc: &mut Acc, n_gen: u64) -> FileSet {
    let mut names = vec![];
    let mut texts = vec![];
    let pool = pool();
    for (n, t) in pool.progs.iter().take(24) {
        names.push(n.clone());
        texts.push(t.clone());
    }
    for k in 0..n_gen {
        let rng = Rng::new(ctx.seed, "C15/files", k);
        if let Some(tp) = progsrc::generated(k, &rng, Cfg::normal(), acc) {
            if let Some(l) = progsrc::lay_checked(&tp, Layout::Pretty, &rng, acc) {
                names.push(tp.name.clone());
                texts.push(l.text);
            }
        }
    }
    // deeply nested files: a recursion guard or depth counter that leaks must not affect the files analysed afterwards
    let all_deep = crate::deep::deep_texts();
    let wanted = |n: &str| n.ends_with(":70") || (n.ends_with(":150") && (n.starts_with("chain:+") || n.starts_with("blocks") || n.starts_with("ternary"))) || (n.ends_with(":300") && (n.starts_with("chain:+") || n.starts_with("parens") || n.starts_with("calls") || n.starts_with("else-if")));
    for (n, t) in all_deep.into_iter().filter(|(n, _)| wanted(n)) {
        names.push(format!("deep:{}", n));
        texts.push(t);
    }
    // same-length siblings: byte-preserving edits that change findings (a cache keyed by anything but the content must not confuse them)
    let edits: [(&str, &str); 8] = [(">=", "> "), ("<=", "< "), ("&&", "||"), (" * 2", " * 3"), (" / 4", " / 5"), ("++", "--"), ("== address(0)", "== address(1)"), ("transfer(", "transfeR(")];
    let n0 = texts.len();
    for i in 0..n0 {
        let mut t = texts[i].clone();
        let mut changed = false;
        for (a, b) in edits.iter() {
            if let Some(p) = t.find(a) {
                t.replace_range(p..p + a.len(), b);
                changed = true;
            }
        }
        if changed && t.len() == texts[i].len() && t != texts[i] && crate::dets::parses(&t) {
            names.push(format!("{}~same-length-variant", names[i]));
            texts.push(t);
            acc.cov("files:same-length-variants");
        }
    }
    // same-length twins with a different line layout: the text with 0 / 2 empty lines in front and 3 / 1 behind
    let n1 = n0.min(14);
    for i in 0..n1 {
        for (tag, j) in [("a", 0usize), ("b", 2usize)] {
            let t = format!("{}{}{}", "\n".repeat(j), texts[i], "\n".repeat(3 - j));
            if crate::dets::parses(&t) {
                names.push(format!("{}~shift-{}", names[i], tag));
                texts.push(t);
                acc.cov("files:same-length-shifted-twins");
            }
        }
    }
    // same-length twins that agree in cheap fingerprints of their text: (i) a TAB in front of a letter against a line feed in
    // front of the letter 31 / 33 / 37 places lower (equal under the usual polynomial string hashes h*31+b, h*33+b, h*37+b);
    // (ii) a line feed and a blank far apart exchanged (equal length, equal byte histogram, equal sum and xor). The line layout
    // differs from the changed spot on.
    for i in 0..n1 {
        let t = texts[i].clone();
        let b = t.as_bytes();
        let mut made = false;
        let mut tries = 0;
        let mut p = t.len() / 6;
        while p + 1 < b.len() && tries < 40 && !made {
            if b[p] == b' ' && (b'f'..=b'y').contains(&b[p + 1]) && p > 0 && b[p - 1] != b'/' && b[p - 1] != b'*' {
                tries += 1;
                let mut t0 = b.to_vec();
                t0[p] = b'\t';
                let t0s = String::from_utf8(t0).unwrap();
                let mut twins: Vec<(String, String)> = vec![];
                for m in [31u8, 33, 37] {
                    let mut tm = b.to_vec();
                    tm[p] = b'\n';
                    tm[p + 1] = b[p + 1] - m;
                    let tms = String::from_utf8(tm).unwrap();
                    if crate::dets::parses(&tms) {
                        twins.push((format!("{}~wstwin-{}", names[i], m), tms));
                    }
                }
                if twins.len() == 3 && crate::dets::parses(&t0s) {
                    names.push(format!("{}~wstwin-0", names[i]));
                    texts.push(t0s);
                    for (n, x) in twins {
                        names.push(n);
                        texts.push(x);
                    }
                    acc.cov("files:equal-polynomial-fingerprint-twins");
                    made = true;
                }
            }
            p += 1;
        }
        // (ii)
        if let (Some(a), Some(z)) = (t[t.len() / 6..].find(' ').map(|x| x + t.len() / 6), t.rfind('\n')) {
            if let Some(q) = t[..z].rfind('\n') {
                if a + 1 < q {
                    let mut tw = b.to_vec();
                    tw[a] = b'\n';
                    tw[q] = b' ';
                    let tws = String::from_utf8(tw).unwrap();
                    if tws != t && crate::dets::parses(&tws) {
                        names.push(format!("{}~wstwin-swap", names[i]));
                        texts.push(tws);
                        acc.cov("files:equal-histogram-twins");
                    }
                }
            }
        }
    }
    // files without any definition
    for (i, t) in MINIMAL_FILES.iter().enumerate() {
        if crate::dets::parses(t) {
            names.push(format!("minimal:{}", i));
            texts.push(t.to_string());
            acc.cov("files:minimal");
        }
    }
    // baselines in parallel (one fresh process per file)
    let results: std::sync::Mutex<Vec<(usize, Result<BTreeMap<&'static str, Option<Lines>>, String>)>> = std::sync::Mutex::new(vec![]);
    let next = std::sync::atomic::AtomicUsize::new(0);
    std::thread::scope(|s| {
        for _ in 0..ctx.threads {
            s.spawn(|| loop {
                let i = next.fetch_add(1, std::sync::atomic::Ordering::Relaxed);
                if i >= texts.len() {
                    break;
                }
                let r = baseline(&texts[i]);
                results.lock().unwrap().push((i, r));
            });
        }
    });
    let mut base: Vec<BTreeMap<&'static str, Option<Lines>>> = vec![BTreeMap::new(); texts.len()];
    for (i, r) in results.into_inner().unwrap() {
        match r {
            Ok(m) => base[i] = m,
            Err(e) => acc.inconclusive(format!("baseline for {}: {}", names[i], e)),
        }
    }
    FileSet { names, texts, base }
}

fn observe(fs: &FileSet, fi: usize, det: &(&'static str, Det), file_no: usize, ctxs: &str, acc: &mut Acc) {
    observe_text(fs, fi, &fs.texts[fi], det, file_no, ctxs, acc)
}

/// `text` is the content of file `fi`, possibly held in a buffer that other contents occupied before
fn observe_text(fs: &FileSet, fi: usize, text: &str, det: &(&'static str, Det), file_no: usize, ctxs: &str, acc: &mut Acc) {
    let got = guarded(|| det.1.lines(text, file_no)).ok();
    acc.eval();
    let exp = match fs.base[fi].get(det.0) {
        Some(e) => e,
        None => return,
    };
    if &got != exp {
        acc.violation(
            format!("{}:{}", ctxs, det.0),
            json!({"file": fs.names[fi], "detector": det.0, "file_number": file_no, "baseline_lines": exp, "observed_lines": got, "context": ctxs, "text": trunc(&fs.texts[fi], 2000)}),
        );
    }
}

pub fn run(ctx: &Ctx) -> i32 {
    let mut acc = Acc::default();
    let mut meta = Meta::new(
        "baseline: for each of ~40 files a freshly started helper process makes exactly one call per pattern. Then (a) sequential histories: random call sequences over files x patterns with repetitions, interleavings and adversarial file_number values \
         (same number for different contents, different numbers for the same content, 0, usize::MAX); (b) directory histories: a file placed at every index among 0-8 siblings, in a sub-directory, twice under two names, with random pattern subsets/orders, through analyze_dir; \
         (c) concurrency: 2-32 threads released by a barrier, each running its own random sequence over a shared small set of files, plus the three analyze_dir walkers concurrently on one tree. Every observation must equal the baseline. \
         evaluation = one observed (file, pattern) result compared with the baseline; non-trivial = (file, pattern) whose baseline is non-empty; distinct by (file, pattern)",
    );
    let fs = build_fileset(ctx, &mut acc, ctx.tier.pick(16, 40));
    let nfiles = fs.texts.len();
    if nfiles < 20 && ctx.replay.is_none() {
        acc.inconclusive(format!("only {} files in the file set", nfiles));
    }
    for (i, b) in fs.base.iter().enumerate() {
        for (n, l) in b {
            if l.as_ref().map(|x| !x.is_empty()).unwrap_or(false) {
                acc.nontrivial_h(hash_str(&format!("{}|{}", fs.names[i], n)));
            }
        }
    }
    acc.cov_n("files", nfiles as u64);

    // (a) sequential histories
    let nh = ctx.tier.pick(1000u64, 60000u64);
    run_workload(ctx, &mut acc, "sequential-histories", nh, |k, rng, acc| {
        let len = rng.range(20, 120);
        let small: Vec<usize> = (0..rng.range(2, 5)).map(|_| rng.below(nfiles)).collect();
        for step in 0..len {
            let fi = if rng.chance(2, 3) { *rng.pick(&small) } else { rng.below(nfiles) };
            let det = rng.pick(&dets::ALL);
            let (fno, kind) = match rng.below(6) {
                0 => (0usize, "file_number=0"),
                1 => (usize::MAX, "file_number=usize::MAX"),
                2 => (7, "file_number=same-for-different-contents"),
                3 => (rng.below(1000), "file_number=random"),
                4 => (fi, "file_number=own-index"),
                _ => ((fi + step) % 13, "file_number=varying-for-same-content"),
            };
            acc.cov(kind);
            observe(&fs, fi, det, fno, "sequential", acc);
            if rng.chance(1, 4) {
                // immediate repetition
                observe(&fs, fi, det, fno, "sequential-repeat", acc);
            }
            if rng.chance(1, 3) {
                // a different content of the SAME byte length right afterwards, with the SAME file number
                let vname = format!("{}~same-length-variant", fs.names[fi]);
                if let Some(vi) = fs.names.iter().position(|n| *n == vname) {
                    acc.cov("same-length-different-content-same-file_number");
                    observe(&fs, vi, det, fno, "sequential-same-length-sibling", acc);
                    observe(&fs, fi, det, fno, "sequential-same-length-sibling", acc);
                }
            }
        }
        // fingerprint twins one after the other on this thread, every detector: A, B, A
        for _ in 0..2 {
            let fi = rng.below(nfiles);
            let find = |tag: &str| fs.names.iter().position(|n| *n == format!("{}~wstwin-{}", fs.names[fi], tag));
            let pair = if rng.chance(1, 4) { (Some(fi), find("swap")) } else { (find("0"), find(rng.ps(&["31", "33", "37"]))) };
            if let (Some(a), Some(b)) = pair {
                acc.cov("fingerprint-twins-in-turn");
                let fno = rng.below(3);
                for det in dets::ALL.iter() {
                    for x in [a, b, a] {
                        observe(&fs, x, det, fno, "sequential-fingerprint-twins", acc);
                    }
                }
            }
        }
        // one buffer, several contents in turn: same address, and for the shifted twins the same length too
        let mut buf = String::with_capacity(1 << 20);
        for _ in 0..rng.range(2, 8) {
            let fi = rng.below(nfiles);
            let det = rng.pick(&dets::ALL);
            let fno = rng.below(3);
            let mut seq = vec![fi];
            for tag in ["a", "b"] {
                if let Some(vi) = fs.names.iter().position(|n| *n == format!("{}~shift-{}", fs.names[fi], tag)) {
                    seq.push(vi);
                }
            }
            if seq.len() == 3 && rng.chance(1, 2) {
                seq.remove(0);
            }
            rng.shuffle(&mut seq);
            seq.push(seq[0]);
            for &x in &seq {
                if fs.texts[x].len() <= buf.capacity() {
                    buf.clear();
                    buf.push_str(&fs.texts[x]);
                    acc.cov("reused-buffer-call");
                    let b: &str = &buf;
                    observe_text(&fs, x, b, det, fno, "sequential-reused-buffer", acc);
                }
            }
        }
        if k == 0 {
            acc.sample(json!({"history": "sequential", "calls": len, "shared_files": small.iter().map(|i| fs.names[*i].clone()).collect::<Vec<_>>()}));
        }
    });

    // (b) directory histories
    let nd = ctx.tier.pick(400u64, 20000u64);
    run_workload(ctx, &mut acc, "directory-histories", nd, |_k, rng, acc| {
        let fi = rng.below(nfiles);
        if fs.base[fi].values().any(|v| v.is_none()) {
            return; // a file on which some detector panics cannot go through analyze_dir
        }
        let nsib = rng.range(0, 8);
        let pos = rng.below(nsib + 1);
        let root = scratch_dir("c15");
        // creation order decides listing order on tmpfs; put the probe at creation position `pos`
        let mut order: Vec<Option<usize>> = vec![];
        for j in 0..=nsib {
            if j == pos {
                order.push(None);
            } else {
                let mut si = rng.below(nfiles);
                let mut tries = 0;
                while fs.base[si].values().any(|v| v.is_none()) && tries < 20 {
                    si = rng.below(nfiles);
                    tries += 1;
                }
                order.push(Some(si));
            }
        }
        let in_subdir = rng.chance(1, 3);
        let twice = rng.chance(1, 4);
        // the sub-directory may carry a name that project tools treat specially, next to their manifest files
        let chain: String = if rng.chance(1, 8) {
            // ... or sits 45-60 one-letter directories down
            acc.cov("directory:probe-below-a-chain-of-45-60-directories");
            (0..rng.range(45, 60)).map(|l| ((b'a' + (l % 26) as u8) as char).to_string()).collect::<Vec<_>>().join("/")
        } else {
            String::new()
        };
        let plain_name = rng.ps(&["inner", "lib", "node_modules", "test", "out", "inner", "script"]);
        let subdir_name: &str = if chain.is_empty() { plain_name } else { &chain };
        if in_subdir {
            std::fs::create_dir_all(format!("{}/{}", root, subdir_name)).unwrap();
            if rng.chance(1, 2) {
                for m in ["foundry.toml", "package.json", "remappings.txt", "hardhat.config.js"] {
                    std::fs::write(format!("{}/{}", root, m), b"{}\n").unwrap();
                }
                acc.cov("directory:project-manifests-next-to-the-sub-directory");
            }
        }
        for (j, o) in order.iter().enumerate() {
            match o {
                None => {
                    let d = if in_subdir { format!("{}/{}", root, subdir_name) } else { root.clone() };
                    std::fs::write(format!("{}/Probe.sol", d), &fs.texts[fi]).unwrap();
                    if twice {
                        // a second name for the same content: an independent copy, or a hard link (same inode)
                        if rng.chance(1, 2) && std::fs::hard_link(format!("{}/Probe.sol", d), format!("{}/ProbeCopy.sol", root)).is_ok() {
                            acc.cov("directory:second-name-is-a-hard-link");
                        } else {
                            std::fs::write(format!("{}/ProbeCopy.sol", root), &fs.texts[fi]).unwrap();
                        }
                    }
                }
                Some(si) => {
                    if fs.base[*si].values().all(|v| v.is_some()) {
                        std::fs::write(format!("{}/Sib{}.sol", root, j), &fs.texts[*si]).unwrap();
                    }
                }
            }
        }
        // a different file under the SAME name in another sub-directory
        let mut namesake: Option<usize> = None;
        if rng.chance(1, 3) {
            let mut sj = rng.below(nfiles);
            // half of the time a same-length twin of the probe with another line layout, when there is one
            if rng.chance(1, 2) {
                let base_name = fs.names[fi].trim_end_matches("~shift-a").trim_end_matches("~shift-b").to_string();
                let cands: Vec<usize> = ["~shift-a", "~shift-b", "~same-length-variant"].iter().filter_map(|t| fs.names.iter().position(|n| *n == format!("{}{}", base_name, t))).filter(|x| *x != fi && fs.texts[*x].len() == fs.texts[fi].len()).collect();
                if !cands.is_empty() {
                    sj = *rng.pick(&cands);
                    acc.cov("directory:namesake-is-a-same-length-twin");
                }
            }
            let mut tries = 0;
            while (fs.base[sj].values().any(|v| v.is_none()) || sj == fi) && tries < 20 {
                sj = rng.below(nfiles);
                tries += 1;
            }
            if sj != fi && fs.base[sj].values().all(|v| v.is_some()) {
                std::fs::create_dir_all(format!("{}/vendor", root)).unwrap();
                std::fs::write(format!("{}/vendor/Probe.sol", root), &fs.texts[sj]).unwrap();
                namesake = Some(sj);
                acc.cov("directory:same-name-in-another-sub-directory");
            }
        }
        let all = all_dets();
        let mut pats: Vec<Det> = all.iter().filter(|_| rng.chance(2, 3)).copied().collect();
        rng.shuffle(&mut pats);
        if pats.is_empty() {
            pats.push(all[0]);
        }
        acc.cov(&format!("directory:probe-at-creation-index-{}", pos.min(8)));
        if in_subdir {
            acc.cov("directory:probe-in-subdirectory");
        }
        match observed_findings_inprocess(&root, &pats) {
            Ok(found) => {
                for probe_name in ["Probe.sol", "ProbeCopy.sol"] {
                    if probe_name == "ProbeCopy.sol" && !twice {
                        continue;
                    }
                    for d in &pats {
                        let exp = fs.base[fi].get(d.name()).cloned().flatten().unwrap_or_default();
                        if probe_name == "Probe.sol" && namesake.is_some() {
                            // two files share the name: compare the multiset of line sets reported under that name
                            let exp2 = fs.base[namesake.unwrap()].get(d.name()).cloned().flatten().unwrap_or_default();
                            let mut want: Vec<Vec<i32>> = [exp.clone(), exp2].iter().filter(|s| !s.is_empty()).map(|s| s.iter().copied().collect()).collect();
                            want.sort();
                            let mut have: Vec<Vec<i32>> = found.iter().filter(|f| f.0 == d.name() && f.1 == probe_name).map(|f| f.2.clone()).collect();
                            have.sort();
                            acc.eval();
                            if want != have {
                                acc.violation(
                                    format!("directory-namesake:{}", d.name()),
                                    json!({"file": fs.names[fi], "namesake": fs.names[namesake.unwrap()], "detector": d.name(), "expected_line_sets_under_the_name": want, "observed": have}),
                                );
                            }
                            continue;
                        }
                        let got: Lines = found.iter().filter(|f| f.0 == d.name() && f.1 == probe_name).flat_map(|f| f.2.iter().copied()).collect();
                        acc.eval();
                        if got != exp {
                            acc.violation(
                                format!("directory:{}", d.name()),
                                json!({"file": fs.names[fi], "as": probe_name, "detector": d.name(), "siblings": nsib, "creation_index": pos, "in_subdirectory": in_subdir, "co_selected": pats.iter().map(|p| p.name()).collect::<Vec<_>>(),
                                       "baseline_lines": exp, "observed_lines": got}),
                            );
                        }
                    }
                }
            }
            Err((m, at)) => acc.violation("directory:analyze_dir-panicked", json!({"panic": m, "at": at})),
        }
        // history: the probe rewritten in place by a same-length sibling (same inode, time stamps put back, as a restore tool
        // does) and the directory analysed again in this process
        if !twice && namesake.is_none() && rng.chance(1, 2) {
            let stem = fs.names[fi].split('~').next().unwrap_or("").to_string();
            let cands: Vec<usize> = (0..nfiles)
                .filter(|x| *x != fi && fs.texts[*x].len() == fs.texts[fi].len() && fs.texts[*x] != fs.texts[fi] && fs.names[*x].split('~').next() == Some(stem.as_str()) && fs.base[*x].values().all(|v| v.is_some()))
                .collect();
            if !cands.is_empty() {
                let vi = *rng.pick(&cands);
                let d = if in_subdir { format!("{}/{}", root, subdir_name) } else { root.clone() };
                let path = format!("{}/Probe.sol", d);
                if let Ok(md) = std::fs::metadata(&path) {
                    let _ = std::fs::write(&path, &fs.texts[vi]);
                    if let (Ok(f), Ok(m), Ok(a)) = (std::fs::OpenOptions::new().write(true).open(&path), md.modified(), md.accessed()) {
                        let _ = f.set_times(std::fs::FileTimes::new().set_modified(m).set_accessed(a));
                    }
                    acc.cov("directory:probe-rewritten-in-place-same-length-time-stamps-restored");
                    if let Ok(found2) = observed_findings_inprocess(&root, &pats) {
                        for dd in &pats {
                            let exp = fs.base[vi].get(dd.name()).cloned().flatten().unwrap_or_default();
                            let got: Lines = found2.iter().filter(|f| f.0 == dd.name() && f.1 == "Probe.sol").flat_map(|f| f.2.iter().copied()).collect();
                            acc.eval();
                            if got != exp {
                                acc.violation(
                                    format!("directory-rewritten-in-place:{}", dd.name()),
                                    json!({"file_before": fs.names[fi], "file_after": fs.names[vi], "detector": dd.name(), "baseline_lines_of_the_new_content": exp, "observed_lines": got,
                                           "note": "same path, same inode, same length, time stamps restored; second analyze_dir in one process"}),
                                );
                            }
                        }
                    }
                }
            }
        }
        let _ = std::fs::remove_dir_all(&root);
    });

    // (c) concurrency
    let rounds = ctx.tier.pick(30u64, 400u64);
    if ctx.replay.as_ref().map(|r| r.0 == "concurrent").unwrap_or(true) {
        let fsr = &fs;
        for round in 0..rounds {
            let mut t = [2usize, 4, 8, 16, 32][(round % 5) as usize];
            let rng0 = Rng::new(ctx.seed, "C15/concurrent", round);
            let mut shared: Vec<usize> = (0..rng0.range(1, 3)).map(|_| rng0.below(nfiles)).collect();
            // every fifth round: 64 or 96 threads, all of them on deeply nested files (many deep walks in flight at once)
            if round % 5 == 4 {
                let deepest: Vec<usize> = (0..nfiles).filter(|i| fs.names[*i].starts_with("deep:") && fs.names[*i].ends_with(":300")).collect();
                let deep: Vec<usize> = if deepest.is_empty() { (0..nfiles).filter(|i| fs.names[*i].starts_with("deep:")).collect() } else { deepest };
                if !deep.is_empty() {
                    shared = (0..2).map(|_| *rng0.pick(&deep)).collect();
                    t = if round % 10 == 9 { 96 } else { 64 };
                    acc.cov("concurrent:all-threads-on-deeply-nested-files");
                }
            }
            let barrier = Arc::new(Barrier::new(t));
            let accs: std::sync::Mutex<Vec<Acc>> = std::sync::Mutex::new(vec![]);
            std::thread::scope(|s| {
                for ti in 0..t {
                    let barrier = barrier.clone();
                    let shared = shared.clone();
                    let accs = &accs;
                    let _ = std::thread::Builder::new().stack_size(256 << 20).spawn_scoped(s, move || {
                        let rng = Rng::new(ctx.seed, "C15/concurrent-thread", round * 128 + ti as u64);
                        let mut a = Acc::default();
                        a.cur_workload = "concurrent".into();
                        a.cur_k = round;
                        barrier.wait();
                        let calls = if t >= 64 { ctx.tier.pick(80, 160) } else { ctx.tier.pick(40, 120) };
                        for _ in 0..calls {
                            let fi = *rng.pick(&shared);
                            let det = rng.pick(&dets::ALL);
                            observe(fsr, fi, det, rng.below(4), &format!("concurrent-{}-threads", t), &mut a);
                        }
                        accs.lock().unwrap().push(a);
                    });
                }
            });
            for a in accs.into_inner().unwrap() {
                acc.merge(a);
            }
            acc.cov(&format!("concurrent:threads={}", t));
        }
        // the three analyze_dir walkers concurrently on one tree
        let root = scratch_dir("c15c");
        let mut placed = vec![];
        for (i, t) in fs.texts.iter().enumerate().take(12) {
            if fs.base[i].values().all(|v| v.is_some()) {
                std::fs::write(format!("{}/W{}.sol", root, i), t).unwrap();
                placed.push(i);
            }
        }
        let all = all_dets();
        let walk_rounds = ctx.tier.pick(3, 20);
        for _ in 0..walk_rounds {
            let outs: std::sync::Mutex<Vec<Result<Vec<Finding>, (String, String)>>> = std::sync::Mutex::new(vec![]);
            let barrier = Arc::new(Barrier::new(6));
            std::thread::scope(|s| {
                for _ in 0..6 {
                    let barrier = barrier.clone();
                    let outs = &outs;
                    let root = &root;
                    let all = &all;
                    s.spawn(move || {
                        barrier.wait();
                        let r = observed_findings_inprocess(root, all);
                        outs.lock().unwrap().push(r);
                    });
                }
            });
            for r in outs.into_inner().unwrap() {
                match r {
                    Ok(found) => {
                        for &i in &placed {
                            for (n, _) in dets::ALL.iter() {
                                let exp = fs.base[i].get(n).cloned().flatten().unwrap_or_default();
                                let got: Lines = found.iter().filter(|f| f.0 == *n && f.1 == format!("W{}.sol", i)).flat_map(|f| f.2.iter().copied()).collect();
                                acc.eval();
                                if got != exp {
                                    acc.cur_workload = "concurrent".into();
                                    acc.violation(format!("concurrent-walkers:{}", n), json!({"file": fs.names[i], "detector": n, "baseline_lines": exp, "observed_lines": got}));
                                }
                            }
                        }
                        acc.cov("concurrent:analyze_dir-walkers");
                    }
                    Err((m, at)) => acc.violation("concurrent-walkers:panicked", json!({"panic": m, "at": at})),
                }
            }
        }
        let _ = std::fs::remove_dir_all(&root);
    }
    // (d) the same question asked of the program's output: the `file:line` entries a report lists for a pattern
    // are the same whichever other patterns are selected with it, in whatever order
    {
        let pool = pool();
        let table = crate::report::section_table();
        let nt = ctx.tier.pick(20u64, 1200u64);
        run_workload(ctx, &mut acc, "report-level-co-selection", nt, |k, rng, acc| {
            let ents = gen_tree_eligible(rng, &pool, 0, 5, 2);
            let base = scratch_dir("c15r");
            std::fs::create_dir_all(format!("{}/contracts", base)).unwrap();
            build(&format!("{}/contracts", base), &ents);
            let run = |args: &[&str]| -> Option<Vec<(String, String, String)>> {
                let _ = std::fs::remove_file(format!("{}/solstat_report.md", base));
                match run_solstat(&base, args) {
                    Ok(o) if o.code == Some(0) => parse_report_triples(&String::from_utf8_lossy(&o.report.unwrap_or_default()), &table).ok(),
                    _ => None,
                }
            };
            match run(&[]) {
                None => acc.cov("report-level:full-run-failed-or-unparseable"),
                Some(full) => {
                    for r in 0..3 {
                        let mut sel: Vec<Vec<String>> = vec![];
                        for cat in ["optimizations", "vulnerabilities", "qa"] {
                            let mut names: Vec<String> = crate::mon::c11::patterns_of(cat).iter().map(|s| s.to_string()).collect();
                            rng.shuffle(&mut names);
                            let keep = match rng.below(4) {
                                0 => 1.min(names.len()),
                                1 => names.len(),
                                _ => rng.range(0, names.len()),
                            };
                            names.truncate(keep);
                            sel.push(names);
                        }
                        std::fs::write(format!("{}/cfg.toml", base), toml_text(None, &sel[0], &sel[1], &sel[2])).unwrap();
                        let chosen: BTreeSet<&String> = sel.iter().flatten().collect();
                        let want: Vec<(String, String, String)> = full.iter().filter(|t| chosen.contains(&t.0)).cloned().collect();
                        match run(&["--toml", "cfg.toml"]) {
                            None => acc.cov("report-level:subset-run-failed-or-unparseable"),
                            Some(got) => {
                                acc.eval();
                                acc.cov("report-level:compared");
                                if !want.is_empty() {
                                    acc.nontrivial_h(hash_str(&format!("{:?}|{}", sel, to_json(&ents))));
                                }
                                if got != want {
                                    let lost: Vec<_> = want.iter().filter(|t| !got.contains(t)).take(5).collect();
                                    let extra: Vec<_> = got.iter().filter(|t| !want.contains(t)).take(5).collect();
                                    let sig = if !extra.is_empty() { "report-level:entries-appear-when-fewer-patterns-are-selected" } else { "report-level:entries-vanish-when-fewer-patterns-are-selected" };
                                    acc.violation(sig, json!({"tree": to_json(&ents), "selected": sel, "run": r, "in_full_report_only": lost, "in_subset_report_only": extra}));
                                }
                            }
                        }
                    }
                }
            }
            let _ = std::fs::remove_dir_all(&base);
            if k == 0 {
                acc.sample(json!({"report_level_tree": to_json(&ents)}));
            }
        });
        if ctx.replay.is_none() && acc.cov_get("report-level:compared") < 30 {
            acc.inconclusive(format!("report-level workload compared only {} runs", acc.cov_get("report-level:compared")));
        }
    }
    if ctx.replay.is_none() && std::env::var("VMON_SKIP_SANITIZERS").is_err() {
        sanitizers(ctx, &mut acc);
    }
    meta.assumptions = vec![
        "the baseline process is fresh and makes one call per pattern, so no history can have leaked into it".into(),
        "thread overlap is obtained by barriers and oversubscription; no sleeps are injected because solstat has no suspension point or lock between which a delay could be placed".into(),
    ];
    finish(ctx, acc, meta)
}

/// ThreadSanitizer (both tiers) and Miri (thorough) runs of the concurrent workload in /verif/harness-nightly,
/// rebuilt from /repo's working tree.
fn sanitizers(ctx: &Ctx, acc: &mut Acc) {
    let tdir = std::env::var("VMON_TARGET_DIR").unwrap_or_else(|_| "target".to_string());
    let tdir = if tdir.starts_with('/') { tdir } else { format!("{}/{}", VERIF_DIR, tdir) };
    let manifest = format!("{}/harness-nightly/Cargo.toml", VERIF_DIR);
    acc.cur_workload = "sanitizers".into();
    // ---- ThreadSanitizer
    let build = std::process::Command::new("cargo")
        .args(["+nightly", "build", "-Zbuild-std", "--target", "x86_64-unknown-linux-gnu", "--release", "--offline", "--manifest-path", &manifest, "--target-dir", &format!("{}/tsan", tdir)])
        .env("RUSTFLAGS", "-Zsanitizer=thread")
        .env("CARGO_NET_OFFLINE", "true")
        .output();
    match build {
        Ok(o) if o.status.success() => {
            let bin = format!("{}/tsan/x86_64-unknown-linux-gnu/release/vmon-nightly", tdir);
            match std::process::Command::new(&bin).arg("stress").env("TSAN_OPTIONS", "halt_on_error=0 exitcode=66").output() {
                Ok(r) => {
                    let err = String::from_utf8_lossy(&r.stderr).to_string();
                    let out = String::from_utf8_lossy(&r.stdout).to_string();
                    acc.eval();
                    acc.cov("tsan:runs");
                    let reports = err.matches("WARNING: ThreadSanitizer").count();
                    acc.cov_n("tsan:reports", reports as u64);
                    if reports > 0 || r.status.code() == Some(66) {
                        acc.violation("sanitizer:tsan:data-race", json!({"reports": reports, "first_report": trunc(&err, 3000)}));
                    } else if !r.status.success() {
                        acc.violation("sanitizer:tsan-run:result-mismatch-under-threads", json!({"stdout": trunc(&out, 500), "stderr": trunc(&err, 1000), "exit": r.status.code()}));
                    } else {
                        acc.sample(json!({"tsan_run": out.trim()}));
                    }
                }
                Err(e) => acc.inconclusive(format!("cannot run the ThreadSanitizer binary: {}", e)),
            }
        }
        Ok(o) => acc.inconclusive(format!("ThreadSanitizer build failed: {}", trunc(&String::from_utf8_lossy(&o.stderr), 400))),
        Err(e) => acc.inconclusive(format!("cannot start cargo +nightly: {}", e)),
    }
    // ---- Miri (thorough only: ~1 minute per seed)
    if ctx.tier == Tier::Thorough {
        let seeds = 8;
        let r = std::process::Command::new("cargo")
            .args(["+nightly", "miri", "run", "--offline", "--manifest-path", &manifest, "--target-dir", &format!("{}/miri", tdir)])
            .env("MIRIFLAGS", format!("-Zmiri-disable-isolation -Zmiri-many-seeds=0..{}", seeds))
            .env("CARGO_NET_OFFLINE", "true")
            .env_remove("RUSTFLAGS")
            .output();
        match r {
            Ok(o) => {
                let err = String::from_utf8_lossy(&o.stderr).to_string();
                let out = String::from_utf8_lossy(&o.stdout).to_string();
                let ok_runs = out.matches("mismatches=0").count();
                acc.cov_n("miri:seeds-completed", ok_runs as u64);
                acc.evals_n(ok_runs as u64);
                if err.contains("Undefined Behavior") || err.contains("Data race detected") {
                    acc.violation("sanitizer:miri:undefined-behaviour-or-data-race", json!({"stderr": trunc(&err, 3000)}));
                } else if out.contains("mismatches=") && ok_runs < out.matches("mismatches=").count() {
                    acc.violation("sanitizer:miri-run:result-mismatch-under-threads", json!({"stdout": trunc(&out, 800)}));
                } else if !o.status.success() {
                    acc.inconclusive(format!("miri run failed without a diagnosis: {}", trunc(&err, 400)));
                }
            }
            Err(e) => acc.inconclusive(format!("cannot start cargo +nightly miri: {}", e)),
        }
    }
}
