//! Worker subprocess entry points (crash isolation, clean baselines).
pub fn main(args: &[String]) -> i32 {
    match args.first().map(|s| s.as_str()) {
        Some("c04") => super::c04::worker(&args[1..]),
        Some("baseline") => super::c15::worker_baseline(&args[1..]),
        Some("genreport") => super::c11::worker_genreport(&args[1..]),
        _ => 3,
    }
}
