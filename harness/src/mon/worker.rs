//! Worker subprocess entry points (crash isolation).
pub fn main(_args: &[String]) -> i32 {
    3
}
