//! C14 — configuration selects exactly the named patterns and the named directory.
//! Observed through the binary only: argv, cwd, toml, exit status, stderr, solstat_report.md.
use crate::common::*;
use crate::dets;
use crate::mon::c11::{patterns_of, scratch_dir};
use crate::mon::tree::*;
use crate::report;
use serde_json::json;
use std::collections::{BTreeMap, BTreeSet};

/// names in the first column of the docs tables, per category; plus the lists of Solstat.toml
pub fn documented_names() -> Result<BTreeMap<&'static str, BTreeSet<String>>, String> {
    let mut m: BTreeMap<&'static str, BTreeSet<String>> = BTreeMap::new();
    for (cat, file) in [("optimizations", "docs/identified-optimizations.md"), ("vulnerabilities", "docs/identified-vulnerabilities.md"), ("qa", "docs/identified-quality-assurance.md")] {
        let text = std::fs::read_to_string(format!("{}/{}", REPO_DIR, file)).map_err(|e| format!("{}: {}", file, e))?;
        let set = m.entry(cat).or_default();
        for line in text.lines() {
            let line = line.trim();
            if let Some(rest) = line.strip_prefix('|') {
                let cell = rest.split('|').next().unwrap_or("").trim();
                if !cell.is_empty() && cell.chars().all(|c| c.is_ascii_lowercase() || c.is_ascii_digit() || c == '_') && cell.contains('_') || cell == "sstore" {
                    set.insert(cell.to_string());
                }
            }
        }
    }
    // sample Solstat.toml: quoted names inside the three lists
    let toml = std::fs::read_to_string(format!("{}/Solstat.toml", REPO_DIR)).map_err(|e| format!("Solstat.toml: {}", e))?;
    let mut cur: Option<&'static str> = None;
    for line in toml.lines() {
        let l = line.trim();
        if l.starts_with('#') {
            continue;
        }
        if l.starts_with("optimizations") {
            cur = Some("optimizations");
        } else if l.starts_with("vulnerabilities") {
            cur = Some("vulnerabilities");
        } else if l.starts_with("qa") {
            cur = Some("qa");
        } else if l.starts_with("path") {
            cur = None;
        }
        if let Some(c) = cur {
            let mut rest = l;
            while let Some(a) = rest.find('"') {
                let r2 = &rest[a + 1..];
                if let Some(b) = r2.find('"') {
                    m.entry(c).or_default().insert(r2[..b].to_string());
                    rest = &r2[b + 1..];
                } else {
                    break;
                }
            }
        }
    }
    Ok(m)
}

fn casing(name: &str, rng: &Rng, mode: usize) -> String {
    match mode {
        0 => name.to_string(),
        1 => name.to_uppercase(),
        2 => {
            let mut c = name.chars();
            match c.next() {
                Some(f) => f.to_uppercase().collect::<String>() + c.as_str(),
                None => String::new(),
            }
        }
        3 => name.chars().enumerate().map(|(i, c)| if i % 2 == 0 { c.to_ascii_uppercase() } else { c }).collect(),
        _ => name.chars().map(|c| if rng.chance(1, 2) { c.to_ascii_uppercase() } else { c }).collect(),
    }
}

fn sections_in(text: &str, table: &[(&'static str, &'static str, String, Option<&'static str>)]) -> Result<BTreeSet<&'static str>, String> {
    let p = report::parse_report(text, table)?;
    let mut s = BTreeSet::new();
    for part in [&p.vuln, &p.opt, &p.qa].into_iter().flatten() {
        for sec in &part.sections {
            s.insert(sec.pattern);
        }
    }
    Ok(s)
}

fn category_of(name: &str) -> &'static str {
    dets::by_name(name).map(|d| d.category()).unwrap_or("?")
}

fn run_with_toml(trigger: &str, o: &[String], v: &[String], q: &[String], sentinel: bool) -> Result<(RunOut, String), String> {
    let cwd = scratch_dir("c14");
    std::fs::write(format!("{}/cfg.toml", cwd), toml_text(Some(trigger), o, v, q)).map_err(|e| e.to_string())?;
    if sentinel {
        std::fs::write(format!("{}/solstat_report.md", cwd), b"SENTINEL previous report\n").map_err(|e| e.to_string())?;
    }
    let out = run_solstat(&cwd, &["--path", trigger, "--toml", "cfg.toml"])?;
    Ok((out, cwd))
}

pub fn run(ctx: &Ctx) -> i32 {
    let mut acc = Acc::default();
    let mut meta = Meta::new(
        "the binary is run on a trigger directory (files chosen from the corpus so that each of the 30 default patterns reports something) with generated toml files: each documented name alone in 5+ letter casings, \
         random subsets/orders/repetitions of names, unknown names (edit-distance-1 typos, names of another category, empty, padded), no toml at all; and on three directories with disjoint file names for all 8 combinations of --path / --toml / ./contracts. \
         Oracle: exit status, presence of solstat_report.md (or an untouched sentinel), the set of sections in the parsed report, the file names in the report. evaluation = one run of the binary; non-trivial = run with a toml; distinct by (toml text, argv)",
    );
    let table = report::section_table();
    let docs = match documented_names() {
        Ok(d) => d,
        Err(e) => {
            acc.inconclusive(format!("cannot harvest documented names: {}", e));
            BTreeMap::new()
        }
    };
    let ndoc: usize = docs.values().map(|s| s.len()).sum();
    acc.cov_n("documented-names", ndoc as u64);
    if ndoc < 25 && ctx.replay.is_none() {
        acc.inconclusive(format!("only {} documented names harvested", ndoc));
    }
    // trigger directory: greedy cover of the 30 patterns from the pool
    let pool = pool();
    let trig_base = scratch_dir("c14trig");
    let trigger = format!("{}/trigger", trig_base);
    std::fs::create_dir_all(&trigger).unwrap();
    let mut covered: BTreeSet<&'static str> = BTreeSet::new();
    let mut nfiles = 0;
    for (pname, text) in &pool.progs {
        let hits: Vec<&'static str> = dets::ALL.iter().filter(|(_, d)| !d.lines(text, 0).is_empty()).map(|(n, _)| *n).collect();
        if hits.iter().any(|h| !covered.contains(h)) {
            covered.extend(hits);
            std::fs::write(format!("{}/T{}.sol", trigger, nfiles), text).unwrap();
            nfiles += 1;
            let _ = pname;
        }
        if covered.len() == 30 {
            break;
        }
    }
    if covered.len() < 30 && ctx.replay.is_none() {
        let missing: Vec<&str> = dets::ALL.iter().map(|(n, _)| *n).filter(|n| !covered.contains(n)).collect();
        acc.inconclusive(format!("trigger corpus does not make these patterns fire: {:?}", missing));
    }
    acc.cov_n("trigger-files", nfiles as u64);

    // ---- 1. each documented name alone, in several casings
    let mut name_list: Vec<(&'static str, String)> = vec![];
    for (c, s) in &docs {
        for n in s {
            name_list.push((c, n.clone()));
        }
    }
    let ncase = ctx.tier.pick(12usize, 200usize);
    let name_sections: std::sync::Mutex<BTreeMap<String, BTreeSet<&'static str>>> = std::sync::Mutex::new(BTreeMap::new());
    run_workload(ctx, &mut acc, "documented-name-alone", (name_list.len() * ncase) as u64, |k, rng, acc| {
        let (cat, name) = &name_list[k as usize / ncase];
        let mode = k as usize % ncase;
        let spelled = casing(name, rng, mode);
        let (mut o, mut v, mut q) = (vec![], vec![], vec![]);
        match *cat {
            "optimizations" => o.push(spelled.clone()),
            "vulnerabilities" => v.push(spelled.clone()),
            _ => q.push(spelled.clone()),
        }
        let (out, cwd) = match run_with_toml(&trigger, &o, &v, &q, false) {
            Ok(x) => x,
            Err(e) => {
                acc.inconclusive(e);
                return;
            }
        };
        acc.eval();
        acc.cov(&format!("casing-mode:{}", mode.min(4)));
        acc.nontrivial_h(hash_str(&format!("{}{}", cat, spelled)));
        if out.code != Some(0) || out.report.is_none() {
            acc.violation(
                format!("name-rejected:{}{}", name, if mode == 0 { "" } else { ":case-variant" }),
                json!({"category": cat, "documented_name": name, "spelled": spelled, "exit_code": out.code, "stderr": trunc(&out.stderr, 300)}),
            );
        } else {
            let text = String::from_utf8_lossy(out.report.as_ref().unwrap()).to_string();
            match sections_in(&text, &table) {
                Ok(secs) => {
                    if secs.len() != 1 {
                        acc.violation(format!("selected!=analysed:single:{}", name), json!({"name": spelled, "sections_found": secs}));
                    } else {
                        let sec = *secs.iter().next().unwrap();
                        if dets::by_name(name).is_some() && sec != name {
                            acc.violation(format!("name-selects-other-pattern:{}->{}", name, sec), json!({"name": spelled, "section_found": sec}));
                        }
                        if category_of(sec) != *cat {
                            acc.violation(format!("name-selects-other-category:{}", name), json!({"name": spelled, "section_found": sec}));
                        }
                    }
                    name_sections.lock().unwrap().entry(name.clone()).or_default().extend(secs);
                }
                Err(e) => acc.violation("report-grammar", json!({"name": spelled, "parse_error": e})),
            }
        }
        if k < 2 {
            acc.sample(json!({"toml": toml_text(Some("<trigger dir>"), &o, &v, &q), "exit_code": out.code}));
        }
        let _ = std::fs::remove_dir_all(&cwd);
    });
    // injectivity and default coverage (needs all results)
    if ctx.replay.is_none() {
        let ns = name_sections.into_inner().unwrap();
        let mut by_sec: BTreeMap<&'static str, Vec<String>> = BTreeMap::new();
        for (n, secs) in &ns {
            for s in secs {
                by_sec.entry(s).or_default().push(n.clone());
            }
        }
        acc.cur_workload = "documented-name-alone".into();
        for (s, names) in &by_sec {
            if names.len() > 1 {
                acc.violation(format!("names-collide:{}", names.join(",")), json!({"section": s, "names": names}));
            }
        }
        for (n, _) in dets::ALL.iter() {
            if covered.contains(n) && !by_sec.contains_key(n) {
                acc.violation(format!("default-not-selectable:{}", n), json!({"pattern": n, "note": "runs by default but no documented name selects it"}));
            }
        }
    }

    // ---- 2. exact selection with real names; no toml => all
    let valid: Vec<&'static str> = dets::ALL.iter().map(|(n, _)| *n).collect();
    let nsel = ctx.tier.pick(300u64, 25000u64);
    run_workload(ctx, &mut acc, "exact-selection", nsel, |k, rng, acc| {
        if k == 1 {
            // a configuration that selects nothing: three empty lists
            let (out, cwd) = match run_with_toml(&trigger, &[], &[], &[], false) {
                Ok(x) => x,
                Err(e) => {
                    acc.inconclusive(e);
                    return;
                }
            };
            acc.eval();
            acc.cov("empty-selection(three empty lists)");
            let text = String::from_utf8_lossy(&out.report.clone().unwrap_or_default()).to_string();
            match sections_in(&text, &table) {
                Ok(secs) if out.code == Some(0) => {
                    if !secs.is_empty() {
                        acc.violation(format!("selected!=analysed:empty-selection:{}", secs.iter().next().unwrap()), json!({"selection": [], "sections_found": secs}));
                    }
                }
                Ok(_) => acc.violation("valid-selection-rejected:empty", json!({"exit_code": out.code, "stderr": trunc(&out.stderr, 300)})),
                Err(e) => acc.violation("report-grammar", json!({"parse_error": e})),
            }
            let _ = std::fs::remove_dir_all(&cwd);
            return;
        }
        if k == 0 {
            // default configuration
            let cwd = scratch_dir("c14");
            match run_solstat(&cwd, &["--path", &trigger]) {
                Ok(out) => {
                    acc.eval();
                    let text = String::from_utf8_lossy(&out.report.clone().unwrap_or_default()).to_string();
                    match sections_in(&text, &table) {
                        Ok(secs) => {
                            let exp: BTreeSet<&'static str> = covered.iter().copied().collect();
                            if out.code != Some(0) || secs != exp {
                                let missing: Vec<_> = exp.difference(&secs).collect();
                                acc.violation("default-run-does-not-analyse-all", json!({"exit_code": out.code, "missing_sections": missing}));
                            }
                            acc.cov("default-run(no toml)");
                        }
                        Err(e) => acc.violation("report-grammar", json!({"parse_error": e})),
                    }
                }
                Err(e) => acc.inconclusive(e),
            }
            let _ = std::fs::remove_dir_all(&cwd);
            return;
        }
        let mut sel: Vec<&'static str> = valid.iter().filter(|_| rng.chance(1, 4)).copied().collect();
        if rng.chance(1, 3) && !sel.is_empty() {
            let d = *rng.pick(&sel);
            sel.push(d); // repetition
        }
        rng.shuffle(&mut sel);
        let spell = |n: &str| casing(n, rng, rng.below(5));
        let o: Vec<String> = sel.iter().filter(|n| category_of(n) == "optimizations").map(|n| spell(n)).collect();
        let v: Vec<String> = sel.iter().filter(|n| category_of(n) == "vulnerabilities").map(|n| spell(n)).collect();
        let q: Vec<String> = sel.iter().filter(|n| category_of(n) == "qa").map(|n| spell(n)).collect();
        let (out, cwd) = match run_with_toml(&trigger, &o, &v, &q, false) {
            Ok(x) => x,
            Err(e) => {
                acc.inconclusive(e);
                return;
            }
        };
        acc.eval();
        acc.nontrivial_h(hash_str(&toml_text(None, &o, &v, &q)));
        let exp: BTreeSet<&'static str> = sel.iter().copied().filter(|n| covered.contains(n)).collect();
        if out.code != Some(0) {
            acc.violation("valid-selection-rejected", json!({"selection": sel, "exit_code": out.code, "stderr": trunc(&out.stderr, 300)}));
        } else {
            let text = String::from_utf8_lossy(&out.report.clone().unwrap_or_default()).to_string();
            match sections_in(&text, &table) {
                Ok(secs) => {
                    if secs != exp {
                        let extra: Vec<_> = secs.difference(&exp).collect();
                        let missing: Vec<_> = exp.difference(&secs).collect();
                        let sig = if !extra.is_empty() { format!("selected!=analysed:extra:{}", extra[0]) } else { format!("selected!=analysed:missing:{}", missing[0]) };
                        acc.violation(sig, json!({"selection": sel, "extra": extra, "missing": missing}));
                    }
                }
                Err(e) => acc.violation("report-grammar", json!({"parse_error": e})),
            }
        }
        let _ = std::fs::remove_dir_all(&cwd);
    });

    // ---- 3. unknown names
    let nunk = ctx.tier.pick(1200u64, 40000u64);
    run_workload(ctx, &mut acc, "unknown-names", nunk, |k, rng, acc| {
        let base = *rng.pick(&valid);
        let all_known: BTreeSet<String> = valid.iter().map(|s| s.to_string()).chain(docs.values().flatten().cloned()).collect();
        if k % 9 == 8 {
            // many unknown names at once (the exit status must not depend on how many there are)
            let count = [2usize, 255, 256, 257, 512, 1024][((k / 9) % 6) as usize];
            let names: Vec<String> = (0..count).map(|i| format!("no_such_pattern_{}", i)).collect();
            let (o, v, q): (Vec<String>, Vec<String>, Vec<String>) = match (k / 54) % 3 {
                0 => (names, vec![], vec![]),
                1 => (vec!["sstore".to_string()], names, vec![]),
                _ => {
                    let third = count / 3;
                    (names[..third].to_vec(), names[third..2 * third].to_vec(), names[2 * third..].to_vec())
                }
            };
            match run_with_toml(&trigger, &o, &v, &q, true) {
                Ok((out, cwd)) => {
                    acc.eval();
                    acc.cov(&format!("unknown:many:{}", count));
                    acc.nontrivial_h(hash_str(&format!("many{}{}", count, (k / 54) % 3)));
                    if out.code == Some(0) {
                        acc.violation("unknown-accepted:many", json!({"unknown_names": count, "exit_code": out.code}));
                    } else if out.report.as_deref() != Some(&b"SENTINEL previous report\n"[..]) {
                        acc.violation("report-written-on-failure", json!({"unknown_names": count, "exit_code": out.code}));
                    }
                    let _ = std::fs::remove_dir_all(&cwd);
                }
                Err(e) => acc.inconclusive(e),
            }
            return;
        }
        let (kind, bad): (&str, String) = match k % 8 {
            7 => ("other-category-and-own", base.to_string()),
            0 => ("typo-delete", {
                let i = rng.below(base.len());
                format!("{}{}", &base[..i], &base[i + 1..])
            }),
            1 => ("typo-insert", {
                let i = rng.below(base.len() + 1);
                format!("{}x{}", &base[..i], &base[i..])
            }),
            2 => ("typo-substitute", {
                let i = rng.below(base.len());
                format!("{}z{}", &base[..i], &base[i + 1..])
            }),
            3 => ("other-category", base.to_string()),
            4 => ("empty", String::new()),
            5 => ("padded", format!(" {} ", base)),
            _ => ("dash-for-underscore", base.replace('_', "-")),
        };
        if !kind.starts_with("other-category") && all_known.contains(&bad.to_lowercase()) {
            return;
        }
        let (mut o, mut v, mut q) = (vec![], vec![], vec![]);
        // a couple of valid names around the bad one, so that a run that skips the bad name would still produce a report
        o.push("sstore".to_string());
        let target_cat = if kind.starts_with("other-category") {
            match category_of(base) {
                "optimizations" => "vulnerabilities",
                "vulnerabilities" => "qa",
                _ => "optimizations",
            }
        } else {
            category_of(base)
        };
        match target_cat {
            "optimizations" => o.insert(rng.below(o.len() + 1), bad.clone()),
            "vulnerabilities" => v.push(bad.clone()),
            _ => q.push(bad.clone()),
        }
        if kind == "other-category-and-own" {
            // the same name is also listed where it belongs (in any letter case): still unknown in the other section
            let own = if rng.chance(1, 2) { base.to_string() } else { base.to_uppercase() };
            match category_of(base) {
                "optimizations" => o.push(own),
                "vulnerabilities" => v.push(own),
                _ => q.push(own),
            }
        }
        let sentinel = rng.chance(1, 2);
        let (out, cwd) = match run_with_toml(&trigger, &o, &v, &q, sentinel) {
            Ok(x) => x,
            Err(e) => {
                acc.inconclusive(e);
                return;
            }
        };
        acc.eval();
        acc.cov(&format!("unknown:{}", kind));
        acc.nontrivial_h(hash_str(&format!("{}{}{}", kind, bad, target_cat)));
        if out.code == Some(0) {
            acc.violation(format!("unknown-accepted:{}", kind), json!({"bad_name": bad, "listed_under": target_cat, "exit_code": out.code}));
        } else {
            let ok = match &out.report {
                None => !sentinel,
                Some(b) => sentinel && b == b"SENTINEL previous report\n",
            };
            if !ok {
                acc.violation("report-written-on-failure", json!({"bad_name": bad, "listed_under": target_cat, "exit_code": out.code, "sentinel_present_before": sentinel, "report_after": out.report.as_ref().map(|b| trunc(&String::from_utf8_lossy(b), 200))}));
            }
        }
        let _ = std::fs::remove_dir_all(&cwd);
    });

    // ---- 4. directory precedence
    let nprec = ctx.tier.pick(800u64, 12000u64);
    let small = pool.progs.iter().find(|(n, _)| n.contains("Token")).map(|(_, t)| t.clone()).unwrap_or_else(|| pool.progs[0].1.clone());
    run_workload(ctx, &mut acc, "directory-precedence", nprec, |k, rng, acc| {
        let combo = k % 8; // bit0: --path, bit1: --toml, bit2: ./contracts exists
        let cwd = scratch_dir("c14p");
        let mk = |d: &str, f: &str| {
            std::fs::create_dir_all(format!("{}/{}", cwd, d)).unwrap();
            std::fs::write(format!("{}/{}/{}", cwd, d, f), &small).unwrap();
        };
        mk("pdir", "P1.sol");
        mk("tdir", "T1.sol");
        if combo & 4 != 0 {
            mk("contracts", "D1.sol");
        }
        let toml_path = if rng.chance(1, 2) { "./tdir".to_string() } else { format!("{}/tdir", cwd) };
        let all_o: Vec<String> = patterns_of("optimizations").iter().map(|s| s.to_string()).collect();
        let all_v: Vec<String> = patterns_of("vulnerabilities").iter().map(|s| s.to_string()).collect();
        let all_q: Vec<String> = patterns_of("qa").iter().map(|s| s.to_string()).collect();
        // the configuration file sits either in the working directory or in a sub-directory of it
        let toml_in_subdir = rng.chance(1, 2);
        let toml_arg = if toml_in_subdir { "conf/cfg.toml" } else { "cfg.toml" };
        std::fs::create_dir_all(format!("{}/conf", cwd)).unwrap();
        let toml_path = if toml_in_subdir && toml_path.starts_with("./") && rng.chance(1, 2) { format!("{}/tdir", cwd) } else { toml_path };
        // with --path given the toml's own path entry is irrelevant, even if it names nothing that exists
        let toml_path = if combo & 1 != 0 && rng.chance(1, 3) {
            acc.cov("precedence:toml-path-does-not-exist-but---path-given");
            "./no-such-directory".to_string()
        } else {
            toml_path
        };
        std::fs::write(format!("{}/{}", cwd, toml_arg), toml_text(Some(&toml_path), &all_o, &all_v, &all_q)).unwrap();
        let mut args: Vec<&str> = vec![];
        // spellings of the --path argument; when ./contracts exists the argument may also name exactly that directory
        let path_spelling: &str = if combo & 4 != 0 && rng.chance(1, 3) { rng.ps(&["./contracts", "contracts", "./contracts/"]) } else { rng.ps(&["pdir", "./pdir", "pdir/"]) };
        // the directory that wins may not exist: the run then fails, it does not fall back to the next source
        let missing_winner = rng.chance(1, 8);
        let path_spelling: &str = if missing_winner && combo & 1 != 0 { rng.ps(&["./no-such-dir", "nowhere/at/all", "pdir2"]) } else { path_spelling };
        let path_is_contracts = path_spelling.contains("contracts");
        if combo & 1 != 0 {
            args.extend(["--path", path_spelling]);
            acc.cov(&format!("precedence:path-spelling:{}", path_spelling));
        }
        if combo & 2 != 0 {
            args.extend(["--toml", toml_arg]);
            if toml_in_subdir {
                acc.cov("precedence:toml-in-sub-directory");
            }
        }
        // the environment is not one of the three sources of the directory: variables that look as if they were meant
        // for solstat, pointing at yet another directory, must not matter
        let mut envs: Vec<(String, String)> = vec![];
        if rng.chance(1, 3) {
            mk("edir", "E1.sol");
            for n in ["SOLSTAT_PATH", "SOLSTAT_DIR", "SOLSTAT_TOML", "SOLSTAT_CONFIG", "SOLSTAT_CONTRACTS", "CONTRACTS_PATH", "SOLSTAT_OPTIMIZATIONS", "SOLSTAT_VULNERABILITIES", "SOLSTAT_QA", "PATH_TO_CONTRACTS", "CONTRACTS"] {
                envs.push((n.to_string(), "./edir".to_string()));
            }
            acc.cov("precedence:environment-variables-set");
        }
        let out = match run_solstat_env(&cwd, &args, &envs) {
            Ok(o) => o,
            Err(e) => {
                acc.inconclusive(e);
                return;
            }
        };
        acc.eval();
        acc.cov(&format!("precedence-combo:path={},toml={},contracts={}", combo & 1, (combo >> 1) & 1, (combo >> 2) & 1));
        if missing_winner && combo & 1 != 0 {
            acc.cov("precedence:the-winning-directory-does-not-exist");
            if out.code == Some(0) || out.report.is_some() {
                acc.violation(
                    "path-precedence:missing---path-directory-but-run-succeeds",
                    json!({"argv": args, "toml_path": toml_path, "contracts_dir_exists": combo & 4 != 0, "exit_code": out.code, "report_written": out.report.is_some()}),
                );
            }
            let _ = std::fs::remove_dir_all(&cwd);
            return;
        }
        let expected_file = if combo & 1 != 0 {
            Some(if path_is_contracts { "D1.sol" } else { "P1.sol" })
        } else if combo & 2 != 0 {
            Some("T1.sol")
        } else if combo & 4 != 0 {
            Some("D1.sol")
        } else {
            None
        };
        let text = out.report.as_ref().map(|b| String::from_utf8_lossy(b).to_string()).unwrap_or_default();
        match expected_file {
            None => {
                // nothing to analyse: the documented behaviour is an error about ./contracts; no report may be written
                if out.code == Some(0) || out.report.is_some() {
                    acc.violation("path-precedence:no-directory-but-run-succeeds", json!({"exit_code": out.code, "report_written": out.report.is_some()}));
                }
            }
            Some(f) => {
                let files: BTreeSet<String> = match report::parse_report(&text, &table) {
                    Ok(p) => [&p.vuln, &p.opt, &p.qa].into_iter().flatten().flat_map(|part| part.sections.iter().flat_map(|s| s.entries.iter().map(|e| e.0.clone()))).collect(),
                    Err(_) => BTreeSet::new(),
                };
                let exp: BTreeSet<String> = [f.to_string()].into_iter().collect();
                if out.code == Some(0) && out.report.is_none() {
                    acc.violation("report-not-in-working-directory", json!({"argv": args, "note": "exit 0 but ./solstat_report.md does not exist"}));
                } else if out.code != Some(0) || files != exp {
                    acc.violation(
                        format!("path-precedence:path={},toml={},contracts={}", combo & 1, (combo >> 1) & 1, (combo >> 2) & 1),
                        json!({"argv": args, "toml_path": toml_path, "contracts_dir_exists": combo & 4 != 0, "expected_files_in_report": exp, "files_in_report": files, "exit_code": out.code, "stderr": trunc(&out.stderr, 300)}),
                    );
                }
            }
        }
        let _ = std::fs::remove_dir_all(&cwd);
    });
    let _ = std::fs::remove_dir_all(&trig_base);
    meta.extra.insert("documented_names".into(), json!(docs));
    meta.exhaustive_subspaces.push("every documented name alone; all 8 combinations of --path / --toml / ./contracts".into());
    meta.assumptions = vec![
        "documented names = first column of the three docs tables plus the quoted names in Solstat.toml, harvested from /repo at run time".into(),
        "the toml's path is interpreted relative to the working directory (both relative and absolute spellings are exercised)".into(),
        "with neither --path nor a toml path nor ./contracts the run must fail without writing a report".into(),
    ];
    finish(ctx, acc, meta)
}
