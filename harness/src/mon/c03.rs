//! C03 — directory analysis is the exact union of the per-file results.
use crate::common::*;
use crate::dets::Det;
use crate::mon::c11::scratch_dir;
use crate::mon::tree::*;
use crate::report;
use serde_json::json;

fn classify(lost: &[Finding], foreign: &[Finding], root: &str) -> String {
    if let Some(l) = lost.first() {
        // does the lost pattern also occur below a sub-directory of the directory that holds the lost file?
        let cat = crate::dets::by_name(&l.0).map(|d| d.category()).unwrap_or("?");
        let has_subdirs = listing(root).iter().any(|x| x.1) || true;
        if foreign.is_empty() && has_subdirs {
            return format!("lost:{}:entries-of-a-directory-dropped", cat);
        }
        return format!("lost:{}", cat);
    }
    if let Some(f) = foreign.first() {
        let cat = crate::dets::by_name(&f.0).map(|d| d.category()).unwrap_or("?");
        return format!("foreign-or-duplicated:{}", cat);
    }
    "?".into()
}

pub fn run(ctx: &Ctx) -> i32 {
    let mut acc = Acc::default();
    let mut meta = Meta::new(
        "directory trees (depth 0-4, 0-12 files and 0-3 sub-directories per directory, contents from a pool of corpus programs so that patterns recur across files, same basename in several directories, \
         empty directories, directories named x.sol) built on tmpfs in random creation orders (read_dir order = reverse creation order there; the observed order is recorded and shape-classified). \
         Expected = every eligible file at any depth analysed on its own with analyze_for_*; observed = analyze_dir x3 in-process, and the binary's report parsed back. Compared as multisets of (pattern, file, lines). \
         Pattern lists: all, random subsets in random order, singletons. non-trivial = tree with a sub-directory and >= 2 files; distinct by tree spec",
    );
    let pool = pool();
    if pool.progs.len() < 10 {
        acc.inconclusive("program pool too small");
    }
    acc.cov_n("pool:programs", pool.progs.len() as u64);
    let table = report::section_table();
    let n = ctx.tier.pick(1500u64, 20000u64);
    run_workload(ctx, &mut acc, "trees-inprocess", n, |k, rng, acc| {
        let ents = gen_tree_eligible(rng, &pool, 0, if rng.chance(1, 5) { 12 } else { 4 }, 3);
        let base = scratch_dir("c03");
        let root = format!("{}/root", base);
        std::fs::create_dir(&root).unwrap();
        let mut ents = ents;
        if rng.chance(1, 5) {
            // a directory and a file that live outside the analysed root and are reached through symbolic links
            std::fs::create_dir_all(format!("{}/shared/vendor", base)).unwrap();
            std::fs::write(format!("{}/shared/vendor/Linked.sol", base), rng.pick(&pool.progs).1.as_bytes()).unwrap();
            std::fs::write(format!("{}/shared/Single.sol", base), rng.pick(&pool.progs).1.as_bytes()).unwrap();
            ents.push(Ent::Link { name: "vendor".into(), target: "../shared/vendor".into() });
            ents.push(Ent::Link { name: "LinkedFile.sol".into(), target: "../shared/Single.sol".into() });
            acc.cov("trees-with-symlinks");
        }
        if rng.chance(1, 4) {
            // sibling directories whose names are prefixes of one another, one of them holding a link to the other
            let stem = rng.ps(&["a", "lib", "src", "v1", "x"]).to_string();
            let longer = format!("{}{}", stem, rng.ps(&["b", "2", "-old", ".bak", "s", "_", "0"]));
            let (holder, target) = if rng.chance(1, 2) { (longer.clone(), stem.clone()) } else { (stem.clone(), longer.clone()) };
            let taken = |n: &str| ents.iter().any(|e| match e {
                Ent::File { name, .. } | Ent::Dir { name, .. } | Ent::Link { name, .. } | Ent::Hard { name, .. } => name == n,
            });
            if !taken(&holder) && !taken(&target) {
                let f1 = Ent::File { name: format!("P{}.sol", rng.below(50)), bytes: rng.pick(&pool.progs).1.clone().into_bytes() };
                let f2 = Ent::File { name: format!("Q{}.sol", rng.below(50)), bytes: rng.pick(&pool.progs).1.clone().into_bytes() };
                ents.push(Ent::Dir { name: target.clone(), kids: vec![f1] });
                ents.push(Ent::Dir { name: holder, kids: vec![f2, Ent::Link { name: "ln".into(), target: format!("../{}", target) }] });
                acc.cov("trees-with-links-between-prefix-named-siblings");
            }
        }
        build(&root, &ents);
        shapes(&root, 0, acc);
        let all = all_dets();
        let pats: Vec<Det> = match rng.below(4) {
            0 => all.clone(),
            1 => vec![*rng.pick(&all)],
            _ => {
                let mut p: Vec<Det> = all.iter().filter(|_| rng.chance(1, 2)).copied().collect();
                rng.shuffle(&mut p);
                if p.is_empty() {
                    p.push(all[0]);
                }
                p
            }
        };
        let mut exp = vec![];
        if let Err(e) = expected_findings(&root, &pats, &mut exp) {
            acc.discards += 1;
            acc.cov("discard:expected-side-failed");
            let _ = e;
            let _ = std::fs::remove_dir_all(&base);
            return;
        }
        match observed_findings_inprocess(&root, &pats) {
            Ok(got) => {
                acc.eval();
                let (lost, foreign) = diff(&exp, &got);
                if !lost.is_empty() || !foreign.is_empty() {
                    acc.violation(
                        classify(&lost, &foreign, &root),
                        json!({"tree_in_creation_order": to_json(&ents), "patterns": pats.iter().map(|d| d.name()).collect::<Vec<_>>(), "lost": lost.iter().take(6).collect::<Vec<_>>(), "foreign": foreign.iter().take(6).collect::<Vec<_>>(),
                               "expected_entries": exp.len(), "observed_entries": got.len(), "root_listing": listing(&root)}),
                    );
                }
            }
            Err((m, at)) => acc.violation("analyze_dir-panicked", json!({"tree": to_json(&ents), "panic": m, "at": at})),
        }
        let has_dir = ents.iter().any(|e| matches!(e, Ent::Dir { .. }));
        if has_dir && exp.len() >= 2 {
            acc.nontrivial_h(hash_str(&to_json(&ents).to_string()));
        }
        if k < 2 {
            acc.sample(json!({"tree_in_creation_order": to_json(&ents), "patterns": pats.len(), "expected_entries": exp.len()}));
        }
        // history: rewrite some files in place (same paths) and analyse the same directory again in this process
        if rng.chance(1, 3) {
            let mut changed = 0;
            for (n, is_dir) in listing(&root) {
                if !is_dir && n.ends_with(".sol") && !n.starts_with("Linked") && rng.chance(1, 2) {
                    let path = format!("{}/{}", root, n);
                    let md = std::fs::metadata(&path).ok();
                    let mut text = rng.pick(&pool.progs).1.clone();
                    let mut stealthy = false;
                    if let Some(md) = &md {
                        // half of the time the way a restore tool rewrites a file: same length (padded with blanks), same inode, time stamps put back
                        if rng.chance(1, 2) && text.len() as u64 <= md.len() && md.len() < (1 << 20) {
                            while (text.len() as u64) < md.len() {
                                text.push(if text.len() % 61 == 0 { '\n' } else { ' ' });
                            }
                            stealthy = true;
                        }
                    }
                    let _ = std::fs::write(&path, text.as_bytes());
                    if stealthy {
                        if let (Some(md), Ok(f)) = (&md, std::fs::OpenOptions::new().write(true).open(&path)) {
                            if let (Ok(m), Ok(a)) = (md.modified(), md.accessed()) {
                                let _ = f.set_times(std::fs::FileTimes::new().set_modified(m).set_accessed(a));
                                acc.cov("rewrite:same-length-same-inode-time-stamps-restored");
                            }
                        }
                    }
                    changed += 1;
                }
            }
            if changed > 0 {
                let mut exp2 = vec![];
                if expected_findings(&root, &pats, &mut exp2).is_ok() {
                    if let Ok(got2) = observed_findings_inprocess(&root, &pats) {
                        acc.eval();
                        acc.cov("re-analysis-after-rewriting-files-in-place");
                        let (lost, foreign) = diff(&exp2, &got2);
                        if !lost.is_empty() || !foreign.is_empty() {
                            acc.violation("stale-content-after-rewrite", json!({"tree": to_json(&ents), "files_rewritten": changed, "lost": lost.iter().take(5).collect::<Vec<_>>(), "foreign": foreign.iter().take(5).collect::<Vec<_>>()}));
                        }
                    }
                }
            }
        }
        let _ = std::fs::remove_dir_all(&base);
    });
    // through the binary
    let nb = ctx.tier.pick(150u64, 2000u64);
    run_workload(ctx, &mut acc, "trees-binary", nb, |_k, rng, acc| {
        let ents = gen_tree_eligible(rng, &pool, 0, 5, 2);
        let base = scratch_dir("c03b");
        let root = format!("{}/src", base);
        std::fs::create_dir(&root).unwrap();
        build(&root, &ents);
        shapes(&root, 0, acc);
        let mut exp = vec![];
        if expected_findings(&root, &all_dets(), &mut exp).is_err() {
            acc.discards += 1;
            let _ = std::fs::remove_dir_all(&base);
            return;
        }
        match run_solstat(&base, &["--path", "src"]) {
            Ok(out) => {
                acc.eval();
                acc.cov("binary-runs");
                if out.code != Some(0) {
                    acc.violation("binary-failed-on-eligible-tree", json!({"tree": to_json(&ents), "code": out.code, "stderr": trunc(&out.stderr, 500)}));
                } else {
                    let text = String::from_utf8_lossy(&out.report.unwrap_or_default()).to_string();
                    match parse_report_triples(&text, &table) {
                        Ok(got) => {
                            let e = triples(&exp);
                            if e != got {
                                let lost: Vec<_> = e.iter().filter(|x| !got.contains(x)).take(6).cloned().collect();
                                let sig = if !lost.is_empty() { "binary:lost-entries" } else { "binary:foreign-or-duplicated-entries" };
                                acc.violation(sig, json!({"tree_in_creation_order": to_json(&ents), "lost": lost, "expected_entries": e.len(), "observed_entries": got.len()}));
                            }
                        }
                        Err(er) => acc.violation("binary:report-grammar", json!({"tree": to_json(&ents), "parse_error": er, "report": trunc(&text, 2000)})),
                    }
                }
            }
            Err(e) => acc.inconclusive(e),
        }
        let _ = std::fs::remove_dir_all(&base);
    });
    if ctx.replay.is_none() {
        for s in ["shape:file-listed-before-dir", "shape:dir-listed-before-file", "shape:dir-and-dir", "shape:dir-between-files", "shape:depth>=3"] {
            if acc.cov_get(s) < 10 {
                acc.inconclusive(format!("coverage floor: {} observed {} times (< 10)", s, acc.cov_get(s)));
            }
        }
    }
    meta.assumptions = vec![
        "eligibility as in C16 (name ends with .sol, not .t.sol in any case); C03 trees only use clearly eligible names".into(),
        "the per-file call analyze_for_* is the definition of 'analysing a file on its own'".into(),
        "read_dir order observed by the harness equals the order solstat sees (same mount, no concurrent modification)".into(),
    ];
    finish(ctx, acc, meta)
}
