//! C18 — a run only reads its inputs and writes one report file.
use crate::common::*;
use crate::mon::c11::scratch_dir;
use crate::mon::c16::have_strace;
use crate::mon::tree::*;
use serde_json::json;
use std::collections::BTreeMap;
use std::os::unix::fs::PermissionsExt;

fn hash_bytes(b: &[u8]) -> u64 {
    let mut h: u64 = 0xcbf29ce484222325;
    for x in b {
        h ^= *x as u64;
        h = h.wrapping_mul(0x100000001b3);
    }
    splitmix(h)
}

type Snap = BTreeMap<String, (char, u64, u64, u32)>;

fn snapshot(root: &str, rel: &str, out: &mut Snap) {
    let dir = if rel.is_empty() { root.to_string() } else { format!("{}/{}", root, rel) };
    if let Ok(rd) = std::fs::read_dir(&dir) {
        for e in rd.flatten() {
            let name = e.file_name().to_string_lossy().to_string();
            let r = if rel.is_empty() { name.clone() } else { format!("{}/{}", rel, name) };
            let md = match std::fs::symlink_metadata(e.path()) {
                Ok(m) => m,
                Err(_) => continue,
            };
            let mode = md.permissions().mode();
            if md.is_dir() {
                out.insert(r.clone(), ('d', 0, 0, mode));
                snapshot(root, &r, out);
            } else {
                let bytes = std::fs::read(e.path()).unwrap_or_default();
                out.insert(r, ('f', bytes.len() as u64, hash_bytes(&bytes), mode));
            }
        }
    }
}

fn path_class(p: &str) -> &'static str {
    if p.ends_with(".sol") {
        "source-file"
    } else if p.ends_with("solstat_report.md") {
        "report-elsewhere"
    } else if p.contains("tmp") {
        "temp-file"
    } else {
        "other-path"
    }
}

/// classify strace lines; returns list of (signature, line) for forbidden effects
fn forbidden_syscalls(log: &str, cwd_report_abs: &str) -> (Vec<(String, String)>, u64) {
    let mut out = vec![];
    let mut seen = 0u64;
    for line in log.lines() {
        // strip pid prefix
        let l = line.trim_start_matches(|c: char| c.is_ascii_digit() || c == ' ');
        let name = l.split('(').next().unwrap_or("");
        if l.contains("= -1 ") {
            continue;
        }
        let first_path = || -> String {
            if let Some(a) = l.find('"') {
                let rest = &l[a + 1..];
                if let Some(b) = rest.find('"') {
                    return rest[..b].to_string();
                }
            }
            String::new()
        };
        match name {
            "open" | "openat" | "creat" => {
                seen += 1;
                let p = first_path();
                let writes = l.contains("O_WRONLY") || l.contains("O_RDWR") || l.contains("O_CREAT") || l.contains("O_TRUNC") || l.contains("O_APPEND") || name == "creat";
                if !writes {
                    continue;
                }
                // ignore well-known non-file targets
                if p.starts_with("/dev/") || p.starts_with("/proc/") {
                    continue;
                }
                let is_report = p == "solstat_report.md" || p == "./solstat_report.md" || p == cwd_report_abs;
                if is_report {
                    if l.contains("O_APPEND") {
                        out.push(("append".to_string(), l.to_string()));
                    }
                } else {
                    out.push((format!("syscall:{}-for-writing:{}", name, path_class(&p)), l.to_string()));
                }
            }
            "unlink" | "unlinkat" | "rename" | "renameat" | "renameat2" | "mkdir" | "mkdirat" | "rmdir" | "chmod" | "fchmodat" | "truncate" | "link" | "linkat" | "symlink" | "symlinkat" | "chown" | "utimensat" => {
                seen += 1;
                let p = first_path();
                out.push((format!("syscall:{}:{}", name, path_class(&p)), l.to_string()));
            }
            _ => {}
        }
    }
    (out, seen)
}

pub fn run(ctx: &Ctx) -> i32 {
    let mut acc = Acc::default();
    let mut meta = Meta::new(
        "histories of 2-6 runs of the binary on a generated tree with edits (add / remove / edit a file) between runs; working directory outside the tree, at the tree root (--path .), in a sub-directory of the tree, or the parent; \
         --path absolute / relative / with trailing slash / default ./contracts; a pre-existing solstat_report.md that is absent, empty, larger than the new report, or 200 kB of Solidity-looking text; failing runs (unknown pattern) in between. \
         Monitors: file-system snapshot (path, kind, size, content hash, mode) of everything reachable from the history's base directory before/after each run; the report must be byte-identical to the report of the same tree analysed from a fresh empty directory; \
         strace classification of every write-mode open / create / unlink / rename / mkdir / chmod / truncate. evaluation = one run of the binary; non-trivial = run with a pre-existing report or cwd inside the tree; distinct by (history index, step)",
    );
    let pool = pool();
    if pool.progs.len() < 10 {
        acc.inconclusive("program pool too small");
    }
    let strace = have_strace();
    if !strace {
        acc.inconclusive("strace not available");
    }
    let n = ctx.tier.pick(250u64, 12000u64);
    let strace_every = ctx.tier.pick(2u64, 4u64);
    run_workload(ctx, &mut acc, "histories", n, |k, rng, acc| {
        let base = scratch_dir("c18");
        let tree_rel = "proj/contracts";
        let tree = format!("{}/{}", base, tree_rel);
        std::fs::create_dir_all(&tree).unwrap();
        let mut ents = gen_tree_eligible(rng, &pool, 1, 4, 2);
        // thorough tier, now and then: a tree whose report is larger than 512 KiB (tens of thousands of findings)
        if ctx.tier == Tier::Thorough && k % 300 == 7 {
            let mut body = String::from("pragma solidity 0.8.17;\ncontract Many {\n    uint256 n;\n    function f() public {\n");
            for _ in 0..6000 {
                body.push_str("        n++;\n");
            }
            body.push_str("    }\n}\n");
            ents = (0..8).map(|i| Ent::File { name: format!("Many{}.sol", i), bytes: body.clone().into_bytes() }).collect();
            acc.cov("tree:report-larger-than-512-KiB");
        }
        build(&tree, &ents);
        std::fs::create_dir_all(format!("{}/sub", tree)).unwrap();
        std::fs::write(format!("{}/proj/README.md", base), b"readme\n").unwrap();
        let cwd_kind = k % 4;
        // files of the analysed tree that merely look like a report: they belong to the tree and must stay as they are
        if rng.chance(1, 3) {
            if cwd_kind != 1 {
                std::fs::write(format!("{}/solstat_report.md", tree), "# Gas Optimizations - (Total Optimizations 3)\n- Kept.sol:1\n").unwrap();
                acc.cov("tree-holds:solstat_report.md-at-its-root");
            }
            if cwd_kind != 2 {
                std::fs::write(format!("{}/sub/solstat_report.md", tree), "left by an earlier run started here\n").unwrap();
                acc.cov("tree-holds:solstat_report.md-below");
            }
            std::fs::write(format!("{}/notes.md", tree), "notes\n").unwrap();
        }
        let (cwd, path_args): (String, Vec<String>) = match cwd_kind {
            0 => {
                std::fs::create_dir_all(format!("{}/elsewhere", base)).unwrap();
                let spell = match rng.below(3) {
                    0 => tree.clone(),
                    1 => format!("../{}", tree_rel),
                    _ => format!("{}/", tree),
                };
                (format!("{}/elsewhere", base), vec!["--path".into(), spell])
            }
            1 => (tree.clone(), vec!["--path".into(), ".".into()]),
            2 => (format!("{}/sub", tree), vec!["--path".into(), "..".into()]),
            _ => (format!("{}/proj", base), vec![]), // default ./contracts
        };
        let steps = rng.range(2, ctx.tier.pick(4, 6));
        for step in 0..steps {
            // edits between runs
            if step > 0 {
                match rng.below(7) {
                    4 => {
                        // remove every eligible file at the top of the tree and below: the next report must be the empty one
                        fn wipe(d: &str) {
                            for (n, is_dir) in listing(d) {
                                let p = format!("{}/{}", d, n);
                                if is_dir {
                                    wipe(&p);
                                } else if n.ends_with(".sol") {
                                    let _ = std::fs::remove_file(&p);
                                }
                            }
                        }
                        wipe(&tree);
                        acc.cov("edit:remove-all-sources");
                    }
                    5 => {
                        // rename a file to another name of the same length: the report keeps its length but not its content
                        if let Some((name, false)) = listing(&tree).into_iter().find(|(n, d)| !*d && n.ends_with(".sol") && n.len() > 4 && n.is_ascii()) {
                            let mut chars: Vec<char> = name.chars().collect();
                            chars[0] = if chars[0] == 'Q' { 'R' } else { 'Q' };
                            let new: String = chars.into_iter().collect();
                            if new.len() == name.len() && !file_exists(&format!("{}/{}", tree, new)) {
                                let _ = std::fs::rename(format!("{}/{}", tree, name), format!("{}/{}", tree, new));
                                acc.cov("edit:rename-same-length");
                            }
                        }
                    }
                    6 => {
                        // push every finding of one file down by one line
                        if let Some((name, false)) = listing(&tree).into_iter().find(|(n, d)| !*d && n.ends_with(".sol")) {
                            let p = format!("{}/{}", tree, name);
                            if let Ok(t) = std::fs::read_to_string(&p) {
                                let _ = std::fs::write(&p, format!("\n{}", t));
                                acc.cov("edit:shift-lines");
                            }
                        }
                    }
                    0 => {
                        let _ = std::fs::write(format!("{}/Added{}.sol", tree, step), rng.pick(&pool.progs).1.as_bytes());
                        acc.cov("edit:add-file");
                    }
                    1 => {
                        if let Some((name, false)) = listing(&tree).into_iter().find(|(n, d)| !*d && n.ends_with(".sol")) {
                            let _ = std::fs::remove_file(format!("{}/{}", tree, name));
                            acc.cov("edit:remove-file");
                        }
                    }
                    2 => {
                        if let Some((name, false)) = listing(&tree).into_iter().find(|(n, d)| !*d && n.ends_with(".sol")) {
                            let _ = std::fs::write(format!("{}/{}", tree, name), rng.pick(&pool.progs).1.as_bytes());
                            acc.cov("edit:rewrite-file");
                        }
                    }
                    _ => acc.cov("edit:none"),
                }
            }
            // pre-existing report variants (only before the first run; later runs see the previous report)
            let report_path = format!("{}/solstat_report.md", cwd);
            if step == 0 {
                match rng.below(4) {
                    0 => acc.cov("previous-report:absent"),
                    1 => {
                        std::fs::write(&report_path, b"").unwrap();
                        acc.cov("previous-report:empty");
                    }
                    2 => {
                        std::fs::write(&report_path, "# Gas Optimizations - (Total Optimizations 999)\n- Old.sol:1\n".repeat(20000)).unwrap();
                        acc.cov("previous-report:larger-than-new");
                    }
                    _ => {
                        std::fs::write(&report_path, "contract Old { function f() public { selfdestruct(payable(msg.sender)); } }\n".repeat(2500)).unwrap();
                        acc.cov("previous-report:solidity-looking");
                    }
                }
            } else {
                acc.cov("previous-report:from-previous-run");
            }
            let failing = step > 0 && rng.chance(1, 5);
            let mut args: Vec<String> = path_args.clone();
            if !failing && rng.chance(1, 3) {
                // a valid configuration file that lives in another directory than the working directory
                let all_o: Vec<String> = crate::mon::c11::OPTS.iter().map(|s| s.to_string()).collect();
                let all_v: Vec<String> = crate::mon::c11::VULNS.iter().map(|s| s.to_string()).collect();
                let all_q: Vec<String> = crate::mon::c11::QAS.iter().map(|s| s.to_string()).collect();
                std::fs::create_dir_all(format!("{}/cfgdir", base)).unwrap();
                // the toml's own path entry points at the analysed tree (absolute), so that it is harmless whether or not --path is given
                // the toml's own path entry: absolute, or relative to the working directory (the same directory either way)
                let rel_from_cwd = match cwd_kind {
                    0 => format!("../{}", tree_rel),
                    1 => ".".to_string(),
                    2 => "..".to_string(),
                    _ => "./contracts".to_string(),
                };
                let tp = if rng.chance(1, 2) { tree.clone() } else { rel_from_cwd };
                std::fs::write(format!("{}/cfgdir/ok.toml", base), toml_text(Some(&tp), &all_o, &all_v, &all_q)).unwrap();
                args.push("--toml".into());
                args.push(if rng.chance(1, 2) { format!("{}/cfgdir/ok.toml", base) } else { "../cfgdir/ok.toml".to_string() });
                if cwd_kind == 0 || cwd_kind == 3 {
                    acc.cov("toml-in-another-directory");
                } else {
                    // relative spelling only resolves from directories one level below base; use the absolute one there
                    let l = args.len();
                    args[l - 1] = format!("{}/cfgdir/ok.toml", base);
                    acc.cov("toml-in-another-directory");
                }
            }
            // now and then a valid configuration that selects nothing at all: the run still replaces the report
            let empty_selection = !failing && !args.iter().any(|a| a == "--toml") && rng.chance(1, 10);
            if empty_selection {
                std::fs::create_dir_all(format!("{}/cfgdir", base)).unwrap();
                std::fs::write(format!("{}/cfgdir/none.toml", base), toml_text(Some(&tree), &[], &[], &[])).unwrap();
                args.push("--toml".into());
                args.push(format!("{}/cfgdir/none.toml", base));
                acc.cov("configuration:selects-nothing");
            }
            if failing {
                std::fs::write(format!("{}/bad.toml", base), toml_text(None, &["no_such_pattern".to_string()], &[], &[])).unwrap();
                args.push("--toml".into());
                args.push(format!("{}/bad.toml", base));
            }
            // reference: same tree from a fresh empty directory
            // (that run is a run like any other: it, too, must leave everything below the base directory as it was)
            let mut before_reference: Snap = Snap::new();
            snapshot(&base, "", &mut before_reference);
            let clean = scratch_dir("c18clean");
            let reference = if empty_selection {
                // nothing selected, nothing found: the report that replaces the previous one has no category part at all (C12)
                Some(vec![])
            } else {
                run_solstat(&clean, &["--path", &tree]).ok().and_then(|o| if o.code == Some(0) { o.report } else { None })
            };
            let _ = std::fs::remove_dir_all(&clean);
            let mut before: Snap = Snap::new();
            snapshot(&base, "", &mut before);
            if before != before_reference {
                let changed: Vec<&String> = before_reference.iter().filter(|(p, v)| before.get(*p) != Some(*v)).map(|(p, _)| p).chain(before.keys().filter(|p| !before_reference.contains_key(*p))).take(5).collect();
                let cls = changed.first().map(|p| path_class(p)).unwrap_or("other-path");
                let removed = changed.first().map(|p| !before.contains_key(*p)).unwrap_or(false);
                acc.violation(
                    format!("tree-modified:{}:{}", if removed { "removed" } else { "changed" }, cls),
                    json!({"cwd": "a fresh empty directory outside the tree", "argv": ["--path", tree.strip_prefix(&base).unwrap_or(&tree)], "step": step, "tree": to_json(&ents), "paths": changed}),
                );
            }
            // stale reports that are almost what the run is going to write: the expected text with CRLF line ends, with one
            // digit changed (same size), with an extra line, or exactly the expected text
            if !failing && rng.chance(1, 4) {
                if let Some(refr) = &reference {
                    let text = String::from_utf8_lossy(refr).to_string();
                    let variant = match rng.below(4) {
                        0 => {
                            acc.cov("previous-report:expected-text-with-crlf");
                            text.replace('\n', "\r\n")
                        }
                        1 => {
                            acc.cov("previous-report:expected-text-one-digit-changed");
                            match text.rfind(|c: char| c.is_ascii_digit()) {
                                Some(p) => {
                                    let d = text.as_bytes()[p];
                                    let nd = if d == b'9' { '1' } else { (d + 1) as char };
                                    format!("{}{}{}", &text[..p], nd, &text[p + 1..])
                                }
                                None => format!("{}x", text),
                            }
                        }
                        2 => {
                            acc.cov("previous-report:expected-text-plus-a-line");
                            format!("{}- Extra.sol:1\n", text)
                        }
                        _ => {
                            acc.cov("previous-report:expected-text");
                            text
                        }
                    };
                    std::fs::write(&report_path, variant).unwrap();
                }
            }
            let prev_report = std::fs::read(&report_path).ok();
            let use_strace = strace && (k + step as u64) % strace_every == 0;
            let log = format!("{}-trace-{}.log", base, step);
            let out = if use_strace {
                let mut cmd = std::process::Command::new("strace");
                cmd.args(["-f", "-qq", "-e", "trace=%file,ftruncate", "-s", "4096", "-o", &log, &solstat_bin()]);
                cmd.args(&args).current_dir(&cwd).stdin(std::process::Stdio::null());
                cmd.output().map(|o| (o.status.code(), String::from_utf8_lossy(&o.stderr).to_string()))
            } else {
                let a: Vec<&str> = args.iter().map(|s| s.as_str()).collect();
                run_solstat(&cwd, &a).map(|o| (o.code, o.stderr)).map_err(|e| std::io::Error::new(std::io::ErrorKind::Other, e))
            };
            let (code, stderr) = match out {
                Ok(x) => x,
                Err(e) => {
                    acc.inconclusive(format!("cannot run the binary: {}", e));
                    break;
                }
            };
            acc.eval();
            acc.cov(&format!("cwd:{}", ["outside-tree", "tree-root", "subdir-of-tree", "parent(default ./contracts)"][cwd_kind as usize]));
            if step == 0 || cwd_kind == 1 || cwd_kind == 2 {
                acc.nontrivial_h(hash_str(&format!("{}-{}", k, step)));
            }
            let mut after: Snap = Snap::new();
            snapshot(&base, "", &mut after);
            let report_rel = report_path.strip_prefix(&format!("{}/", base)).unwrap_or("").to_string();
            let witness = |extra: serde_json::Value| json!({"cwd": cwd.strip_prefix(&base).unwrap_or(&cwd), "argv": args, "step": step, "tree": to_json(&ents), "exit_code": code, "detail": extra});
            // 1. nothing but the report changed
            for (p, v) in &before {
                if *p == report_rel || p.ends_with(".log") {
                    continue;
                }
                match after.get(p) {
                    None => acc.violation(format!("tree-modified:removed:{}", path_class(p)), witness(json!({"path": p}))),
                    Some(a) if a != v => acc.violation(format!("tree-modified:changed:{}", path_class(p)), witness(json!({"path": p, "before": format!("{:?}", v), "after": format!("{:?}", a)}))),
                    _ => {}
                }
            }
            for p in after.keys() {
                if *p == report_rel || p.ends_with(".log") {
                    continue;
                }
                if !before.contains_key(p) {
                    let fname = p.rsplit('/').next().unwrap_or(p);
                    acc.violation(format!("extra-file:{}", if fname.contains("solstat") { fname.to_string() } else { path_class(p).to_string() }), witness(json!({"path": p})));
                }
            }
            // 2. the report
            let now_report = std::fs::read(&report_path).ok();
            if failing {
                if code == Some(0) {
                    acc.cov("failing-run-unexpectedly-succeeded(see C14)");
                } else if now_report != prev_report {
                    acc.violation("failed-run-touched-report", witness(json!({"stderr": trunc(&stderr, 200)})));
                }
                acc.cov("runs:failing");
            } else if code != Some(0) && reference.is_some() {
                // the same tree is analysed without error from a fresh directory, so the failure comes from where the run was
                // started or where its configuration file lives: no report was created or replaced
                acc.violation(format!("valid-run-failed:cwd={}", ["outside-tree", "tree-root", "subdir-of-tree", "parent"][cwd_kind as usize]), witness(json!({"stderr": trunc(&stderr, 300)})));
            } else if code != Some(0) {
                acc.inconclusive(format!("solstat failed on a pool tree: code {:?} stderr {}", code, trunc(&stderr, 200)));
            } else {
                acc.cov("runs:successful");
                match (&now_report, &reference) {
                    (Some(r), Some(refr)) => {
                        if r != refr {
                            let prev_len = prev_report.as_ref().map(|p| p.len()).unwrap_or(0);
                            let sig = if r.len() > refr.len() && prev_len > 0 && (r.ends_with(&prev_report.as_ref().unwrap()[..]) || r.starts_with(&prev_report.as_ref().unwrap()[..]) || r.len() >= prev_len.max(refr.len())) {
                                "report-not-replaced(append-or-no-truncate)"
                            } else {
                                "stale-influence"
                            };
                            acc.violation(sig, witness(json!({"report_len": r.len(), "clean_cwd_report_len": refr.len(), "previous_report_len": prev_len})));
                        }
                    }
                    (None, _) => acc.violation("report-not-written-in-cwd", witness(json!({}))),
                    _ => acc.inconclusive("reference run in a clean directory failed"),
                }
            }
            // 2b. the report against an expectation that does not come from the binary: every eligible file analysed on its own
            if !failing && !empty_selection && code == Some(0) {
                let mut exp = vec![];
                if expected_findings(&tree, &all_dets(), &mut exp).is_ok() {
                    if let Some(r) = &now_report {
                        let table = crate::report::section_table();
                        match parse_report_triples(&String::from_utf8_lossy(r), &table) {
                            Ok(got) => {
                                acc.eval();
                                if got != triples(&exp) {
                                    acc.violation("report-differs-from-per-file-analysis", witness(json!({"expected_entries": triples(&exp).len(), "listed_entries": got.len()})));
                                }
                            }
                            Err(e) => acc.violation("report-grammar", witness(json!({"parse_error": e}))),
                        }
                    }
                }
            }
            // 3. syscalls
            if use_strace {
                let tr = std::fs::read_to_string(&log).unwrap_or_default();
                let (bad, seen) = forbidden_syscalls(&tr, &report_path);
                acc.cov_n("syscalls-classified", seen);
                acc.cov("runs-under-strace");
                for (sig, line) in bad.into_iter().take(3) {
                    acc.violation(sig, witness(json!({"strace": trunc(&line, 300)})));
                }
                let _ = std::fs::remove_file(&log);
            }
            if k == 0 && step == 0 {
                acc.sample(json!({"cwd": cwd.strip_prefix(&base).unwrap_or(&cwd), "argv": args, "tree": to_json(&ents), "exit_code": code}));
            }
        }
        let _ = std::fs::remove_dir_all(&base);
    });
    // ---- odd working directories and process limits
    let n_odd = ctx.tier.pick(8u64, 120u64);
    run_workload(ctx, &mut acc, "odd-environments", n_odd, |k, rng, acc| {
        use std::os::unix::ffi::OsStrExt;
        let base = scratch_dir("c18odd");
        let tree = format!("{}/proj/contracts", base);
        std::fs::create_dir_all(&tree).unwrap();
        let ents = gen_tree_eligible(rng, &pool, 2, 3, 1);
        build(&tree, &ents);
        // what the report must be: the tree analysed from an ordinary fresh directory
        let clean = scratch_dir("c18clean");
        let reference = run_solstat(&clean, &["--path", &tree]).ok().and_then(|o| if o.code == Some(0) { o.report } else { None });
        let _ = std::fs::remove_dir_all(&clean);
        let reference = match reference {
            Some(r) => r,
            None => {
                acc.cov("odd-environments:reference-run-failed");
                let _ = std::fs::remove_dir_all(&base);
                return;
            }
        };
        let stale = b"stale report\n".to_vec();
        if k % 2 == 0 {
            // a working directory whose path is not valid UTF-8 (a Latin-1 name) - directly, or as an ancestor
            let mut cwd = std::path::PathBuf::from(&base);
            cwd.push(std::ffi::OsStr::from_bytes(b"\xdcbung-\xe9t\xe9"));
            if k % 4 == 2 {
                cwd.push("inner");
            }
            std::fs::create_dir_all(&cwd).unwrap();
            std::fs::write(cwd.join("solstat_report.md"), &stale).unwrap();
            let out = std::process::Command::new(solstat_bin()).args(["--path", &tree]).current_dir(&cwd).stdin(std::process::Stdio::null()).output();
            acc.eval();
            acc.cov("odd-environments:working-directory-path-is-not-utf-8");
            acc.nontrivial_h(hash_str(&format!("odd{}", k)));
            match out {
                Ok(o) => {
                    let now = std::fs::read(cwd.join("solstat_report.md")).ok();
                    if o.status.code() != Some(0) {
                        acc.violation("valid-run-failed:cwd=not-utf-8", json!({"exit_code": o.status.code(), "stderr": trunc(&String::from_utf8_lossy(&o.stderr), 300), "tree": to_json(&ents)}));
                    } else if now.as_ref() != Some(&reference) {
                        acc.violation("report-not-written-in-cwd", json!({"cwd": "a directory whose name is not valid UTF-8", "report_is_the_stale_one": now.as_ref() == Some(&stale), "tree": to_json(&ents)}));
                    }
                }
                Err(e) => acc.inconclusive(format!("cannot run the binary: {}", e)),
            }
        } else {
            // a low limit on open files (256) and a directory with 300 sub-directories: a walk needs one handle per nesting level
            let many = format!("{}/proj/wide", base);
            std::fs::create_dir_all(&many).unwrap();
            for i in 0..300 {
                let d = format!("{}/pkg{:03}", many, i);
                std::fs::create_dir_all(&d).unwrap();
                if i % 50 == 0 {
                    std::fs::write(format!("{}/P{}.sol", d, i), rng.pick(&pool.progs).1.as_bytes()).unwrap();
                }
            }
            let clean = scratch_dir("c18clean");
            let reference_wide = run_solstat(&clean, &["--path", &many]).ok().and_then(|o| if o.code == Some(0) { o.report } else { None });
            let _ = std::fs::remove_dir_all(&clean);
            let cwd = format!("{}/proj", base);
            std::fs::write(format!("{}/solstat_report.md", cwd), &stale).unwrap();
            let out = std::process::Command::new("sh")
                .arg("-c")
                .arg("ulimit -S -n 256 2>/dev/null; exec \"$0\" \"$@\"")
                .arg(solstat_bin())
                .args(["--path", &many])
                .current_dir(&cwd)
                .stdin(std::process::Stdio::null())
                .output();
            acc.eval();
            acc.cov("odd-environments:256-open-files-300-sub-directories");
            acc.nontrivial_h(hash_str(&format!("odd{}", k)));
            match (out, reference_wide) {
                (Ok(o), Some(refw)) => {
                    let now = std::fs::read(format!("{}/solstat_report.md", cwd)).ok();
                    if o.status.code() != Some(0) {
                        acc.violation("valid-run-failed:open-file-limit-256", json!({"exit_code": o.status.code(), "stderr": trunc(&String::from_utf8_lossy(&o.stderr), 300), "sub_directories": 300}));
                    } else if now.as_ref() != Some(&refw) {
                        acc.violation("report-not-replaced(append-or-no-truncate)", json!({"note": "run under a limit of 256 open files", "report_is_the_stale_one": now.as_ref() == Some(&stale)}));
                    }
                }
                (Err(e), _) => acc.inconclusive(format!("cannot run the binary through sh: {}", e)),
                (_, None) => acc.cov("odd-environments:reference-run-failed"),
            }
        }
        let _ = std::fs::remove_dir_all(&base);
    });
    // ---- entry-count sweep: a directory of exactly n eligible files analysed from inside itself, again (the first report is now
    // entry n+1 of the listing), and from elsewhere: the three reports are equal for every n
    let counts: Vec<usize> = ctx.tier.pick((1..=66).chain([97usize, 128, 129, 145, 256, 257]).collect(), (1..=300).chain([511usize, 512, 513, 1023, 1024, 1025]).collect());
    let n_sweep = counts.len() as u64;
    run_workload(ctx, &mut acc, "entry-count-sweep", n_sweep, |k, _rng, acc| {
        let n = counts[k as usize % counts.len()];
        let base = scratch_dir("c18cnt");
        let tree = format!("{}/contracts", base);
        std::fs::create_dir_all(&tree).unwrap();
        for i in 0..n {
            std::fs::write(format!("{}/F{:04}.sol", tree, i), format!("pragma solidity 0.8.17;\ncontract F{} {{\n  function f(uint256 a) public returns (uint256) {{\n    return a * 2 + {};\n  }}\n}}\n", i, i)).unwrap();
        }
        let elsewhere = format!("{}/elsewhere", base);
        std::fs::create_dir_all(&elsewhere).unwrap();
        let r1 = run_solstat(&tree, &["--path", "."]).ok().and_then(|o| if o.code == Some(0) { o.report } else { None });
        let r2 = run_solstat(&tree, &["--path", "."]).ok().and_then(|o| if o.code == Some(0) { o.report } else { None });
        let r3 = run_solstat(&elsewhere, &["--path", &tree]).ok().and_then(|o| if o.code == Some(0) { o.report } else { None });
        acc.eval();
        acc.cov("entry-count-sweep:directories");
        acc.nontrivial_h(hash_str(&format!("cnt{}", n)));
        match (r1, r2, r3) {
            (Some(a), Some(b), Some(c)) => {
                if a != b || b != c {
                    acc.violation(
                        "stale-influence:entry-count",
                        json!({"eligible_files": n, "first_equals_second": a == b, "second_equals_run_from_elsewhere": b == c, "report_bytes": [a.len(), b.len(), c.len()],
                               "note": "working directory = analysed directory; the second and third run find the first run's report in the listing"}),
                    );
                }
            }
            _ => acc.violation("valid-run-failed:entry-count-sweep", json!({"eligible_files": n})),
        }
        let _ = std::fs::remove_dir_all(&base);
    });
    // ---- working directories in which the report cannot be written: whatever the run then does (fail, most likely),
    // the analysed tree and everything else around it stay as they were - the report has no other place to go
    let n_unw = ctx.tier.pick(8u64, 80u64);
    run_workload(ctx, &mut acc, "report-cannot-be-written", n_unw, |k, rng, acc| {
        let base = scratch_dir("c18unw");
        let tree = format!("{}/proj/contracts", base);
        std::fs::create_dir_all(&tree).unwrap();
        let ents = gen_tree_eligible(rng, &pool, 2, 3, 1);
        build(&tree, &ents);
        let cwd = format!("{}/work", base);
        std::fs::create_dir_all(&cwd).unwrap();
        let rep = format!("{}/solstat_report.md", cwd);
        let variant = match k % 5 {
            0 => {
                let _ = std::os::unix::fs::symlink("gone/away/report.md", &rep);
                "dangling-link-to-a-missing-directory"
            }
            1 => "working-directory-removed",
            2 => {
                std::fs::create_dir_all(format!("{}/keep", rep)).unwrap();
                std::fs::write(format!("{}/keep/old.md", rep), b"old\n").unwrap();
                "report-name-is-a-directory"
            }
            3 => {
                let _ = std::os::unix::fs::symlink("solstat_report.md", &rep);
                "report-name-is-a-link-to-itself"
            }
            _ => {
                let _ = std::os::unix::fs::symlink(format!("{}/proj/contracts/missing/dir/r.md", base), &rep);
                "dangling-link-into-the-tree"
            }
        };
        let mut before = Snap::new();
        snapshot(&base, "", &mut before);
        let out = if k % 5 == 1 {
            std::process::Command::new("sh")
                .arg("-c")
                .arg("cd \"$1\" && rmdir \"$1\" && bin=\"$0\" && shift && exec \"$bin\" \"$@\"")
                .arg(solstat_bin())
                .arg(&cwd)
                .args(["--path", &tree])
                .stdin(std::process::Stdio::null())
                .output()
        } else {
            std::process::Command::new(solstat_bin()).args(["--path", &tree]).current_dir(&cwd).stdin(std::process::Stdio::null()).output()
        };
        acc.eval();
        acc.cov(&format!("report-cannot-be-written:{}", variant));
        acc.nontrivial_h(hash_str(&format!("unw{}:{}", k, variant)));
        match out {
            Ok(o) => {
                acc.cov(&format!("report-cannot-be-written:exit={}", o.status.code().map(|c| c.to_string()).unwrap_or_else(|| "signal".into())));
                let mut after = Snap::new();
                snapshot(&base, "", &mut after);
                if k % 5 == 1 {
                    before.remove("work");
                }
                let mut diff: Vec<String> = vec![];
                for (p, v) in &before {
                    match after.get(p) {
                        None => diff.push(format!("removed:{}", p)),
                        Some(w) if w != v => diff.push(format!("changed:{}", p)),
                        _ => {}
                    }
                }
                for p in after.keys() {
                    if !before.contains_key(p) {
                        diff.push(format!("created:{}", p));
                    }
                }
                if !diff.is_empty() {
                    diff.truncate(8);
                    acc.violation(
                        &format!("effects-besides-the-report:{}", variant),
                        json!({"working_directory": variant, "exit_code": o.status.code(), "differences_below_the_base": diff, "stderr": trunc(&String::from_utf8_lossy(&o.stderr), 200), "tree": to_json(&ents)}),
                    );
                }
            }
            Err(e) => acc.inconclusive(format!("cannot run the binary: {}", e)),
        }
        let _ = std::fs::remove_dir_all(&base);
    });
    if ctx.replay.is_none() {
        for c in ["cwd:outside-tree", "cwd:tree-root", "cwd:subdir-of-tree", "cwd:parent(default ./contracts)", "previous-report:larger-than-new", "previous-report:from-previous-run"] {
            if acc.cov_get(c) < 5 {
                acc.inconclusive(format!("coverage floor: {} observed {} times", c, acc.cov_get(c)));
            }
        }
        if strace && acc.cov_get("syscalls-classified") == 0 {
            acc.inconclusive("strace monitor classified no syscall (trace parser broken?)");
        }
    }
    meta.assumptions = vec![
        "the file-system snapshot covers the history's base directory (tree, cwd, siblings); effects outside it are seen only by the strace monitor".into(),
        "byte equality with the clean-directory report relies on C13 (deterministic rendering)".into(),
    ];
    finish(ctx, acc, meta)
}
