//! C16 — only Solidity sources are analysed; test files and other files are inert.
use crate::common::*;
use crate::mon::c11::scratch_dir;
use crate::mon::tree::*;
use crate::report;
use serde_json::json;
use std::collections::BTreeSet;

// the last six: punctuation that other platforms treat as separators or wildcards, and letters whose lower-case form has another UTF-8 length
// the last row: double extensions and prefixes that project tools give a meaning (scripts, mocks, interfaces, tests by another convention)
const ELIGIBLE_NAMES: [&str; 30] = [
    "Deploy.s.sol", "Deploy.S.sol", "Mock.m.sol", "Types.d.sol", "Vault.test.sol", "Vault.spec.sol", "Test.sol", "test_Vault.sol", "IVault.sol", "Vault.script.sol", "Vault.tsol.sol", "t.s.sol", "a.t.b.sol", "Vault.solx.sol",
    "A.sol", ".sol", "a b.sol", "合约.sol", "x.sol.sol", "T.SOL.sol", "UPPER.sol", "a.tt.sol", "at.sol", "t.sol", "tokens\\ERC20.sol", "C:Vault.sol", "a*b?.sol", "\u{130}.sol",
    "\u{212A}elvin.sol", "\u{1E9E}t.sol",
];
const INELIGIBLE_NAMES: [&str; 60] = [
    // test files whose names change their byte length when lower-cased (U+0130, U+212A, U+1E9E, U+2126, U+023A)
    "\u{130}stanbul.t.sol", "\u{212A}elvin.T.sol", "\u{1E9E}.t.sol", "\u{2126}hm.t.Sol", "\u{23A}\u{23E}.T.sol", "x\u{130}\u{130}\u{130}.t.sol", "test\\Vault.t.sol", "\u{130}.SOL",
    "run-1695731234567.json", "4294967296", "99999999999999999999.txt", "18446744073709551616.t.sol", "00000000000000000000000000000000000000001.md",
    "foundry.toml", "package.json", "hardhat.config.js", "remappings.txt", ".solhintignore", "Solstat.toml", "solstat_report.md", ".env", "brownie-config.yaml",
    "é.json", "設計.txt", "ü.md", "añb.txt", "ñ", "日本語.md", "résumé.txt", "é.t.sol", "合.SOL", "ö.sol~", "a\u{0301}.txt", "𝔘.dat",
    "a.SOL", "a.Sol", "a.sOl", "a.sol.bak", "a.sol~", "a.solx", "asol", "sol", "a.t.sol", "A.T.SOL", "a.T.sol", "a.t.Sol", ".t.sol", "Vault.t.sol",
    "README.md", "Makefile", "with space.txt", "tab\tname", "line\nbreak.sol.txt", "a.sol ", "a.sol.", "合约.t.sol", "a.json", "b.t.SOL", ".gitignore", "x.T.Sol",
];

fn name_class(n: &str) -> &'static str {
    let l = n.to_lowercase();
    if l.ends_with(".t.sol") {
        "test-file(.t.sol)"
    } else if l.ends_with(".sol") {
        "wrong-case-extension"
    } else if l.contains(".sol") {
        "sol-not-at-end"
    } else {
        "other-name"
    }
}

fn decoy_bytes(rng: &Rng, pool: &Pool, big: bool) -> (&'static str, Vec<u8>) {
    match rng.below(if big { 6 } else { 5 }) {
        0 => ("valid-solidity-with-findings", rng.pick(&pool.progs).1.clone().into_bytes()),
        1 => ("unparseable-solidity", b"pragma solidity ^0.8.0;\ncontract Broken { function f( { x++ ; require(a && b".to_vec()),
        2 => ("invalid-utf8", vec![0xff, 0xfe, 0x00, 0x80, 0xc3, 0x28, b'c', b'o', b'n', b't', b'r', b'a', b'c', b't', 0xa0, 0xa1]),
        3 => ("empty", vec![]),
        4 => ("text", b"just some notes: selfdestruct(msg.sender); x.transfer(y);\n".to_vec()),
        _ => {
            let mut v = Vec::with_capacity(1 << 20);
            while v.len() < (1 << 20) {
                v.extend_from_slice(b"contract Big { function f() public { selfdestruct(payable(msg.sender)); } }\n");
            }
            ("large-1MB", v)
        }
    }
}

/// (tree with decoys, tree without decoys, list of (decoy name, content class))
fn gen_mixed(rng: &Rng, pool: &Pool, depth: usize, big: bool) -> (Vec<Ent>, Vec<Ent>, Vec<(String, &'static str)>) {
    let mut with: Vec<Ent> = vec![];
    let mut without: Vec<Ent> = vec![];
    let mut decoys = vec![];
    let mut used: BTreeSet<String> = BTreeSet::new();
    for _ in 0..rng.range(if depth == 0 { 1 } else { 0 }, 4) {
        let n = if rng.chance(1, 2) { rng.ps(&ELIGIBLE_NAMES).to_string() } else { format!("F{}.sol", rng.below(30)) };
        if used.insert(n.clone()) {
            let e = Ent::File { name: n, bytes: rng.pick(&pool.progs).1.clone().into_bytes() };
            with.push(e.clone());
            without.push(e);
        }
    }
    // an eligible `._<name>` next to an eligible `<name>` (and sometimes on its own)
    if rng.chance(1, 5) {
        let n = match with.first() {
            Some(Ent::File { name, .. }) if rng.chance(3, 4) => format!("._{}", name),
            _ => "._Lonely.sol".to_string(),
        };
        if used.insert(n.clone()) {
            let e = Ent::File { name: n, bytes: rng.pick(&pool.progs).1.clone().into_bytes() };
            with.push(e.clone());
            without.push(e);
        }
    }
    // an eligible file of more than 64 KiB / 1 MiB: comment lines in front of ordinary content
    if depth == 0 && rng.chance(1, 8) {
        let n = format!("Huge{}.sol", rng.below(9));
        if used.insert(n.clone()) {
            let lines = if rng.chance(1, 2) { 40000 } else { 1900 }; // about 1.3 MiB or 64 KiB of comment lines
            let mut t = String::new();
            for i in 0..lines {
                t.push_str(&format!("// filler line {:06} x++; a >= b\n", i));
            }
            t.push_str(&rng.pick(&pool.progs).1);
            let e = Ent::File { name: n, bytes: t.into_bytes() };
            with.push(e.clone());
            without.push(e);
        }
    }
    // second names (hard links) of an eligible file: an eligible one (kept in both trees) and ineligible ones (decoys)
    if rng.chance(1, 5) {
        if let Some(Ent::File { name, .. }) = with.iter().find(|e| matches!(e, Ent::File { .. })) {
            let of = name.clone();
            if rng.chance(1, 2) {
                let n = format!("Alias{}.sol", rng.below(9));
                if used.insert(n.clone()) {
                    with.push(Ent::Hard { name: n.clone(), of: of.clone() });
                    without.push(Ent::Hard { name: n, of: of.clone() });
                }
            }
            let n = rng.ps(&["Alias.sol.orig", "Alias.t.sol", "alias.txt", "Alias.SOL"]).to_string();
            if used.insert(n.clone()) {
                decoys.push((n.clone(), "hard-link-to-an-eligible-file"));
                with.push(Ent::Hard { name: n, of });
            }
        }
    }
    // a chain of 45-60 nested one-letter directories around a small sub-tree
    if depth == 0 && rng.chance(1, 12) {
        let (w, wo, d) = gen_mixed(rng, pool, 2, false);
        decoys.extend(d);
        let (mut w, mut wo) = (w, wo);
        for lvl in 0..rng.range(45, 60) {
            let n = ((b'a' + (lvl % 26) as u8) as char).to_string();
            w = vec![Ent::Dir { name: n.clone(), kids: w }];
            wo = vec![Ent::Dir { name: n, kids: wo }];
        }
        if let Some(Ent::Dir { name, .. }) = w.first() {
            if used.insert(name.clone()) {
                with.extend(w);
                without.extend(wo);
            }
        }
    }
    // now and then a chain of directories with 200-byte names (paths of more than 1024 bytes) around a small sub-tree
    if depth == 0 && rng.chance(1, 10) {
        let (w, wo, d) = gen_mixed(rng, pool, 2, false);
        decoys.extend(d);
        let (mut w, mut wo) = (w, wo);
        for lvl in 0..6 {
            let n = format!("{}{}", "d".repeat(199), lvl);
            w = vec![Ent::Dir { name: n.clone(), kids: w }];
            wo = vec![Ent::Dir { name: n, kids: wo }];
        }
        with.extend(w);
        without.extend(wo);
    }
    for _ in 0..rng.range(0, 4) {
        let mut n = rng.ps(&INELIGIBLE_NAMES).to_string();
        if rng.chance(1, 10) {
            n = format!("{}{}", "long-name-".repeat(19), n);
        }
        if used.insert(n.clone()) {
            let (cls, bytes) = decoy_bytes(rng, pool, big);
            decoys.push((n.clone(), cls));
            with.push(Ent::File { name: n, bytes });
        }
    }
    if depth < 3 {
        for _ in 0..rng.range(0, 2) {
            let n = if rng.chance(1, 4) {
                // directory names that project tools treat specially
                rng.ps(&["lib", "node_modules", "test", "script", "out", "cache", "artifacts", "build", ".git", "mocks"]).to_string()
            } else {
                format!("d{}{}", rng.below(20), if rng.chance(1, 6) { ".t.sol" } else if rng.chance(1, 6) { ".sol" } else { "" })
            };
            if used.insert(n.clone()) {
                let (w, wo, d) = gen_mixed(rng, pool, depth + 1, big);
                decoys.extend(d);
                with.push(Ent::Dir { name: n.clone(), kids: w });
                without.push(Ent::Dir { name: n, kids: wo });
            }
        }
    }
    rng.shuffle(&mut with);
    (with, without, decoys)
}

/// parse `strace -e trace=%file` output: paths successfully opened (not O_DIRECTORY)
pub fn opened_files(log: &str) -> Vec<String> {
    let mut v = vec![];
    for line in log.lines() {
        let is_open = line.contains("openat(") || line.contains("open(");
        if !is_open || line.contains("O_DIRECTORY") || line.contains("= -1") {
            continue;
        }
        if let Some(a) = line.find('"') {
            // path may contain escaped quotes; strace escapes them as \"
            let rest = &line[a + 1..];
            let mut end = 0;
            let b = rest.as_bytes();
            while end < b.len() {
                if b[end] == b'\\' {
                    end += 2;
                    continue;
                }
                if b[end] == b'"' {
                    break;
                }
                end += 1;
            }
            v.push(rest[..end.min(rest.len())].to_string());
        }
    }
    v
}

pub fn have_strace() -> bool {
    std::process::Command::new("strace").arg("-V").output().map(|o| o.status.success()).unwrap_or(false)
}

pub fn run(ctx: &Ctx) -> i32 {
    let mut acc = Acc::default();
    let mut meta = Meta::new(
        "trees (depth 0-3) mixing eligible files (A.sol, .sol, 'a b.sol', 合约.sol, x.sol.sol, T.SOL.sol, ...) with ineligible decoys (a.SOL, a.Sol, a.sol.bak, a.sol~, a.solx, a.t.sol, A.T.SOL, a.T.sol, .t.sol, README.md, names with space/tab/line break, 200-byte names, unicode) \
         whose bytes are valid finding-rich Solidity, unparseable Solidity, invalid UTF-8, empty, plain text or 1 MB. Oracles: analyze_dir x3 on the tree == analyze_dir x3 on the tree without decoys == union of per-file analyses of eligible files; the run must not fail; \
         binary: same via the report; strace: no ineligible file under the root is ever opened. Names ending in .sol that contain '.t.sol' elsewhere are never generated (statement silent). non-trivial = tree with >= 1 decoy and >= 1 eligible file; distinct by tree spec",
    );
    let pool = pool();
    if pool.progs.len() < 10 {
        acc.inconclusive("program pool too small");
    }
    let table = report::section_table();
    let n = ctx.tier.pick(1500u64, 20000u64);
    run_workload(ctx, &mut acc, "trees-inprocess", n, |k, rng, acc| {
        let (mut with, without, mut decoys) = gen_mixed(rng, &pool, 0, ctx.tier == Tier::Thorough && rng.chance(1, 20));
        // one tree per run (a few in the thorough tier) with more than 2^16 ineligible entries in one directory
        if k == 7 || (ctx.tier == Tier::Thorough && k % 4000 == 11) {
            let kids: Vec<Ent> = (0..66_000).map(|i| Ent::File { name: format!("junk{:05}.json", i), bytes: vec![] }).collect();
            with.push(Ent::Dir { name: "cache-of-many".to_string(), kids });
            decoys.push(("cache-of-many/junk00000.json".to_string(), "one-of-66000-empty-files"));
            acc.cov("tree:directory-with-66000-ineligible-entries");
        }
        let base = scratch_dir("c16");
        let (ra, rb) = (format!("{}/with", base), format!("{}/without", base));
        std::fs::create_dir_all(&ra).unwrap();
        std::fs::create_dir_all(&rb).unwrap();
        let (mut with, mut without) = (with, without);
        if rng.chance(1, 5) {
            // an eligible file and a directory of eligible files reached through symbolic links (analysed like any other)
            std::fs::create_dir_all(format!("{}/shared/vendor", base)).unwrap();
            std::fs::write(format!("{}/shared/vendor/Linked.sol", base), rng.pick(&pool.progs).1.as_bytes()).unwrap();
            std::fs::write(format!("{}/shared/Single.sol", base), rng.pick(&pool.progs).1.as_bytes()).unwrap();
            std::fs::write(format!("{}/shared/notes.txt", base), b"not solidity").unwrap();
            for t in [&mut with, &mut without] {
                t.push(Ent::Link { name: "vendor".into(), target: "../shared/vendor".into() });
                t.push(Ent::Link { name: "LinkedFile.sol".into(), target: "../shared/Single.sol".into() });
            }
            // and a decoy link: an ineligible name pointing at a Solidity file
            with.push(Ent::Link { name: "link.txt".into(), target: "../shared/Single.sol".into() });
            acc.cov("trees-with-symlinks");
        }
        build(&ra, &with);
        build(&rb, &without);
        let all = all_dets();
        let mut exp = vec![];
        let exp_ok = expected_findings(&rb, &all, &mut exp).is_ok();
        let got_b = observed_findings_inprocess(&rb, &all);
        let got_a = observed_findings_inprocess(&ra, &all);
        acc.eval();
        for (dn, cls) in &decoys {
            acc.cov(&format!("decoy:{}:{}", name_class(dn), cls));
        }
        match (&got_a, &got_b) {
            (Err((m, at)), Ok(_)) => {
                let (dn, cls) = decoys.first().cloned().unwrap_or(("?".into(), "?"));
                acc.violation(
                    format!("decoy-fails-run:{}", if decoys.len() == 1 { format!("{}:{}", name_class(&dn), cls) } else { "several".into() }),
                    json!({"tree": to_json(&with), "decoys": decoys, "panic": m, "at": at}),
                );
            }
            (Ok(a), Ok(b)) => {
                let (lost, foreign) = diff(b, a);
                if !lost.is_empty() || !foreign.is_empty() {
                    // which decoy?
                    let culprit = foreign.iter().map(|f| f.1.clone()).find(|f| decoys.iter().any(|d| &d.0 == f));
                    let sig = match culprit {
                        Some(c) => format!("analysed-ineligible:{}", name_class(&c)),
                        None if !lost.is_empty() => "decoy-influence:findings-lost".to_string(),
                        None => "decoy-influence:findings-added".to_string(),
                    };
                    acc.violation(sig, json!({"tree": to_json(&with), "decoys": decoys, "lost": lost.iter().take(5).collect::<Vec<_>>(), "foreign": foreign.iter().take(5).collect::<Vec<_>>()}));
                }
                if exp_ok {
                    let (lost, foreign) = diff(&exp, b);
                    if !lost.is_empty() {
                        let name = &lost[0].1;
                        acc.violation(format!("skipped-eligible:{}", if name.is_ascii() { name.clone() } else { "non-ascii-name".into() }), json!({"tree": to_json(&without), "lost": lost.iter().take(5).collect::<Vec<_>>()}));
                    } else if !foreign.is_empty() {
                        acc.violation("foreign-findings-without-decoys", json!({"tree": to_json(&without), "foreign": foreign.iter().take(5).collect::<Vec<_>>()}));
                    }
                }
            }
            (_, Err((m, at))) => {
                acc.discards += 1;
                acc.cov("discard:decoy-free-tree-panics");
                let _ = (m, at);
            }
        }
        if !decoys.is_empty() && !exp.is_empty() {
            acc.nontrivial_h(hash_str(&to_json(&with).to_string()));
        }
        if k < 2 {
            acc.sample(json!({"tree": to_json(&with), "decoys": decoys}));
        }
        let _ = std::fs::remove_dir_all(&base);
    });

    // binary + strace
    let strace = have_strace();
    if !strace {
        acc.inconclusive("strace not available");
    }
    let nb = ctx.tier.pick(150u64, 2000u64);
    run_workload(ctx, &mut acc, "trees-binary-strace", nb, |_k, rng, acc| {
        let (with, without, decoys) = gen_mixed(rng, &pool, 0, false);
        let base = scratch_dir("c16b");
        let ra = format!("{}/src", base);
        std::fs::create_dir_all(&ra).unwrap();
        build(&ra, &with);
        let rb = format!("{}/clean", base);
        std::fs::create_dir_all(&rb).unwrap();
        build(&rb, &without);
        let mut exp = vec![];
        if expected_findings(&rb, &all_dets(), &mut exp).is_err() {
            acc.discards += 1;
            let _ = std::fs::remove_dir_all(&base);
            return;
        }
        let log = format!("{}/trace.log", base);
        let out = std::process::Command::new("strace")
            .args(["-f", "-qq", "-e", "trace=%file", "-s", "4096", "-o", &log, &solstat_bin(), "--path", "src"])
            .current_dir(&base)
            .stdin(std::process::Stdio::null())
            .output();
        match out {
            Ok(o) => {
                acc.eval();
                acc.cov("binary-runs-under-strace");
                if o.status.code() != Some(0) {
                    acc.violation("decoy-fails-run:binary", json!({"tree": to_json(&with), "decoys": decoys, "code": o.status.code(), "stderr": trunc(&String::from_utf8_lossy(&o.stderr), 400)}));
                } else {
                    let text = std::fs::read_to_string(format!("{}/solstat_report.md", base)).unwrap_or_default();
                    match parse_report_triples(&text, &table) {
                        Ok(got) => {
                            let e = triples(&exp);
                            if e != got {
                                let foreign: Vec<_> = got.iter().filter(|x| !e.contains(x)).take(5).cloned().collect();
                                let sig = match foreign.first() {
                                    Some(f) if decoys.iter().any(|d| d.0 == f.1) => format!("analysed-ineligible:{}", name_class(&f.1)),
                                    _ => "binary:report-differs-from-eligible-union".to_string(),
                                };
                                acc.violation(sig, json!({"tree": to_json(&with), "decoys": decoys, "foreign": foreign}));
                            }
                        }
                        Err(er) => acc.violation("binary:report-grammar", json!({"parse_error": er})),
                    }
                    // syscall monitor
                    let tr = std::fs::read_to_string(&log).unwrap_or_default();
                    let opened = opened_files(&tr);
                    let mut under_root = 0;
                    for p in &opened {
                        let rel = if let Some(r) = p.strip_prefix("src/") { Some(r.to_string()) } else { p.strip_prefix(&format!("{}/", ra)).map(|r| r.to_string()) };
                        if let Some(rel) = rel {
                            under_root += 1;
                            let fname = rel.rsplit('/').next().unwrap_or(&rel).to_string();
                            // strace escapes non-ASCII; compare on what we can decode: eligible iff ends with .sol and not .t.sol
                            if !(fname.ends_with(".sol") && !fname.to_lowercase().ends_with(".t.sol")) {
                                acc.violation(format!("decoy-opened:{}", name_class(&fname)), json!({"opened": p, "tree": to_json(&with)}));
                            }
                        }
                    }
                    acc.cov_n("files-opened-under-root", under_root);
                }
            }
            Err(e) => acc.inconclusive(format!("cannot run strace: {}", e)),
        }
        let _ = std::fs::remove_dir_all(&base);
    });
    if ctx.replay.is_none() {
        for c in ["test-file(.t.sol)", "wrong-case-extension", "sol-not-at-end", "other-name"] {
            let seen: u64 = acc.cov.iter().filter(|(k, _)| k.starts_with(&format!("decoy:{}:", c))).map(|(_, v)| *v).sum();
            if seen < 20 {
                acc.inconclusive(format!("coverage floor: decoy name class {} seen {} times", c, seen));
            }
        }
        if strace && acc.cov_get("files-opened-under-root") == 0 {
            acc.inconclusive("strace monitor observed no file opened under the analysed root (trace parser broken?)");
        }
    }
    meta.assumptions = vec![
        "file names are valid Unicode (property); names with '.t.sol' in the middle are not generated".into(),
        "strace path decoding: eligibility of an opened path is judged on its final component as printed by strace".into(),
    ];
    finish(ctx, acc, meta)
}
