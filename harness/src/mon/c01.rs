//! C01 — a pattern is found wherever it is nested.
use crate::common::*;
use crate::corpus;
use crate::dtree;
use crate::gen::{Builder, Cfg};
use crate::layout::{self, Layout};
use serde_json::json;
use solstat::analyzer::ast::{self, Node, Target};
use std::collections::{BTreeMap, HashSet};

pub fn kinds() -> Vec<(&'static str, Target)> {
    use Target::*;
    vec![
        ("Args", Args), ("Return", Return), ("Revert", Revert), ("RevertNamedArgs", RevertNamedArgs), ("Emit", Emit),
        ("Expression", Expression), ("VariableDefinition", VariableDefinition), ("Block", Block), ("If", If), ("While", While),
        ("For", For), ("DoWhile", DoWhile), ("Try", Try), ("Add", Add), ("And", And), ("ArrayLiteral", ArrayLiteral),
        ("ArraySlice", ArraySlice), ("ArraySubscript", ArraySubscript), ("Assign", Assign), ("AssignAdd", AssignAdd),
        ("AssignAnd", AssignAnd), ("AssignDivide", AssignDivide), ("AssignModulo", AssignModulo), ("AssignMultiply", AssignMultiply),
        ("AssignOr", AssignOr), ("AssignShiftLeft", AssignShiftLeft), ("AssignShiftRight", AssignShiftRight),
        ("AssignSubtract", AssignSubtract), ("AssignXor", AssignXor), ("BitwiseAnd", BitwiseAnd), ("BitwiseOr", BitwiseOr),
        ("BitwiseXor", BitwiseXor), ("Complement", Complement), ("Delete", Delete), ("Divide", Divide), ("Equal", Equal),
        ("FunctionCall", FunctionCall), ("FunctionCallBlock", FunctionCallBlock), ("Less", Less), ("LessEqual", LessEqual),
        ("List", List), ("MemberAccess", MemberAccess), ("Modulo", Modulo), ("More", More), ("MoreEqual", MoreEqual),
        ("Multiply", Multiply), ("NamedFunctionCall", NamedFunctionCall), ("New", New), ("Not", Not), ("NotEqual", NotEqual),
        ("Or", Or), ("Parenthesis", Parenthesis), ("PostDecrement", PostDecrement), ("PostIncrement", PostIncrement),
        ("PreIncrement", PreIncrement), ("PreDecrement", PreDecrement), ("ShiftLeft", ShiftLeft), ("ShiftRight", ShiftRight),
        ("Subtract", Subtract), ("Ternary", Ternary), ("Type", Type), ("UnaryMinus", UnaryMinus), ("UnaryPlus", UnaryPlus),
        ("Unit", Unit), ("Power", Power), ("BoolLiteral", BoolLiteral), ("NumberLiteral", NumberLiteral),
        ("RationalNumberLiteral", RationalNumberLiteral), ("HexNumberLiteral", HexNumberLiteral), ("HexLiteral", HexLiteral),
        ("StringLiteral", StringLiteral), ("AddressLiteral", AddressLiteral), ("Variable", Variable), ("This", This),
        ("SourceUnit", SourceUnit), ("ContractDefinition", ContractDefinition), ("EnumDefinition", EnumDefinition),
        ("EventDefinition", EventDefinition), ("ErrorDefinition", ErrorDefinition), ("FunctionDefinition", FunctionDefinition),
        ("ImportDirective", ImportDirective), ("PragmaDirective", PragmaDirective), ("StraySemicolon", StraySemicolon),
        ("StructDefinition", StructDefinition), ("TypeDefinition", TypeDefinition), ("Using", Using),
    ]
}

/// target lists the detectors actually pass (transcribed from the extract_* call sites)
fn detector_sets() -> Vec<Vec<&'static str>> {
    vec![
        vec!["Equal", "NotEqual"],
        vec!["Multiply", "Divide"],
        vec!["Add", "Subtract", "Multiply", "Divide"],
        vec!["MoreEqual", "LessEqual"],
        vec!["PreIncrement", "PreDecrement"],
        vec!["PreIncrement", "PreDecrement", "PostIncrement", "PostDecrement"],
        vec!["Multiply", "AssignDivide"],
        vec![
            "Assign", "PreIncrement", "PostIncrement", "PreDecrement", "PostDecrement", "AssignAdd", "AssignAnd", "AssignDivide",
            "AssignModulo", "AssignMultiply", "AssignOr", "AssignShiftLeft", "AssignShiftRight", "AssignSubtract", "AssignXor",
        ],
    ]
}

fn node_key(n: &Node) -> String {
    // Debug of Node is `Wrapper(<inner debug>)`
    let s = format!("{:?}", n);
    let open = s.find('(').unwrap();
    s[open + 1..s.len() - 1].to_string()
}

fn kind_name(t: &Target, table: &[(&'static str, Target)]) -> &'static str {
    table.iter().find(|(_, x)| x == t).map(|(n, _)| *n).unwrap_or("None")
}

pub struct Stats {
    pub edges: BTreeMap<String, u64>,
}

/// Check one program text. Returns false if the case had to be discarded.
pub fn check_text(name: &str, text: &str, rng: &Rng, acc: &mut Acc, n_random_sets: usize, max_roots: usize) -> bool {
    let su = match solang_parser::parse(text, 0) {
        Ok((su, _)) => su,
        Err(_) => {
            acc.discards += 1;
            return false;
        }
    };
    let dbg = format!("{:?}", su);
    let tree = match dtree::parse(&dbg) {
        Ok(t) => t,
        Err(e) => {
            acc.discards += 1;
            acc.cov("discard:debug-tree-parse");
            let _ = e;
            return false;
        }
    };
    let pts = tree.pt_nodes();
    let index = tree.index_by_text(&pts);
    let table = kinds();
    let all: HashSet<Target> = table.iter().map(|(_, t)| *t).collect();

    // source order check of the reference (informational)
    {
        let mut last = 0usize;
        let mut sorted = true;
        for p in &pts {
            if let Some(st) = loc_start(&tree, p.g) {
                if st < last {
                    sorted = false;
                }
                last = last.max(st);
            }
        }
        acc.cov(if sorted { "reference:sorted-by-offset" } else { "reference:not-sorted-by-offset" });
    }

    // roots: the source unit plus nodes proposed by the walker itself (all kinds)
    let root_node: Node = su.clone().into();
    let proposed = match guarded(std::panic::AssertUnwindSafe(|| ast::walk_node_for_targets(&all, root_node.clone()))) {
        Ok(v) => v,
        Err((m, l)) => {
            acc.violation("walker-panic", json!({"program": name, "panic": m, "at": l, "text": trunc(text, 2000)}));
            return true;
        }
    };
    let mut roots: Vec<Node> = vec![root_node];
    // always: parts, contract parts, function bodies; then a random sample of the rest
    let mut rest: Vec<Node> = vec![];
    for n in proposed {
        match &n {
            Node::SourceUnitPart(_) | Node::ContractPart(_) => roots.push(n),
            Node::SourceUnit(_) => {}
            _ => rest.push(n),
        }
    }
    rng.shuffle(&mut rest);
    rest.truncate(max_roots);
    roots.extend(rest);

    // target sets
    let mut sets: Vec<Vec<&'static str>> = vec![];
    sets.push(table.iter().map(|(n, _)| *n).collect());
    sets.push(vec![]);
    sets.extend(detector_sets());
    for (n, _) in &table {
        sets.push(vec![*n]);
    }
    for _ in 0..n_random_sets {
        let k = rng.range(2, 12);
        let mut s: Vec<&'static str> = (0..k).map(|_| table[rng.below(table.len())].0).collect();
        s.sort();
        s.dedup();
        sets.push(s);
    }

    let mut nontrivial = false;
    for (ri, root) in roots.iter().enumerate() {
        let key = node_key(root);
        let ridx = match index.get(key.as_str()) {
            Some(i) => *i,
            None => {
                // a root the reflection cannot find: harness problem, not a verdict
                acc.discards += 1;
                acc.cov("discard:root-not-in-reference");
                continue;
            }
        };
        let sub = &pts[ridx..pts[ridx].sub_end];
        // which reference nodes does the walker reach at all from this root (all kinds demanded)?
        let reach: HashSet<String> = match guarded(std::panic::AssertUnwindSafe(|| ast::walk_node_for_targets(&all, root.clone()))) {
            Ok(v) => v.iter().map(node_key).collect(),
            Err(_) => HashSet::new(),
        };
        // parent index (within sub) of every node
        let mut parent: Vec<Option<usize>> = vec![None; sub.len()];
        {
            let mut stack: Vec<usize> = vec![];
            for i in 0..sub.len() {
                while let Some(&t) = stack.last() {
                    if sub[t].sub_end - ridx > i {
                        break;
                    }
                    stack.pop();
                }
                parent[i] = stack.last().copied();
                stack.push(i);
            }
        }
        // for single-kind sets on small roots most are empty; only run singles on the first root and on 1 in 4 others
        let run_singles = ri == 0 || rng.chance(1, 4);
        for (si, set) in sets.iter().enumerate() {
            let is_single = si >= 2 + detector_sets().len() && si < 2 + detector_sets().len() + table.len();
            if is_single && !run_singles {
                continue;
            }
            let tset: HashSet<Target> = set.iter().map(|n| table.iter().find(|(m, _)| m == n).unwrap().1).collect();
            let names: HashSet<&str> = set.iter().copied().collect();
            let expected: Vec<usize> = (0..sub.len()).filter(|i| names.contains(sub[*i].kind.as_str())).collect();
            let observed = match guarded(std::panic::AssertUnwindSafe(|| ast::walk_node_for_targets(&tset, root.clone()))) {
                Ok(v) => v,
                Err((m, l)) => {
                    acc.violation("walker-panic", json!({"program": name, "panic": m, "at": l}));
                    continue;
                }
            };
            acc.eval();
            if !expected.is_empty() {
                nontrivial = true;
            }
            // edge coverage: count edges that carried a demanded node (full set on the file root only, to keep counts meaningful)
            if si == 0 && ri == 0 {
                for i in &expected {
                    acc.cov(&format!("edge:{}", sub[*i].edge));
                }
            }
            // compare as sequences
            let mut oi = 0usize;
            let mut verdict: Option<(String, serde_json::Value)> = None;
            let obs_keys: Vec<(String, &'static str)> = observed.iter().map(|n| (node_key(n), kind_name(&n.as_target(), &table))).collect();
            for &ei in &expected {
                let etext = tree.text(sub[ei].g);
                if oi < obs_keys.len() && obs_keys[oi].0 == etext {
                    oi += 1;
                    continue;
                }
                // expected node not next in the observed sequence: is it anywhere later (order) or absent (miss)?
                let later = obs_keys[oi.min(obs_keys.len())..].iter().any(|k| k.0 == etext);
                let earlier = obs_keys[..oi.min(obs_keys.len())].iter().any(|k| k.0 == etext);
                let sig = if later || earlier {
                    format!("order:{}", sub[ei].kind)
                } else {
                    // report the top-most unreached node only, so that one skipped child slot gives one signature
                    let mut top = ei;
                    let mut unreached = !reach.contains(etext) && sub[ei].kind != "None";
                    if unreached {
                        while let Some(pi) = parent[top] {
                            if sub[pi].kind == "None" || reach.contains(tree.text(sub[pi].g)) {
                                break;
                            }
                            top = pi;
                        }
                    } else {
                        unreached = false;
                    }
                    if unreached {
                        format!("miss-edge={}", normalise_edge(&sub[top].edge))
                    } else {
                        format!("miss-under-subset:{}", sub[ei].kind)
                    }
                };
                verdict = Some((
                    sig,
                    json!({"program": name, "root_kind": sub[0].kind, "targets": set, "expected_node": trunc(etext, 300), "expected_kind": sub[ei].kind,
                           "edge": sub[ei].edge, "expected_count": expected.len(), "observed_count": obs_keys.len(), "text": trunc(text, 3000)}),
                ));
                break;
            }
            if verdict.is_none() && oi < obs_keys.len() {
                // extra observed nodes
                let extra = &obs_keys[oi];
                let in_ref = sub.iter().any(|p| tree.text(p.g) == extra.0);
                let sig = if !names.contains(extra.1) {
                    format!("foreign-kind={}", extra.1)
                } else if in_ref {
                    format!("dup={}", extra.1)
                } else {
                    format!("foreign-node={}", extra.1)
                };
                verdict = Some((
                    sig,
                    json!({"program": name, "root_kind": sub[0].kind, "targets": set, "extra_node": trunc(&extra.0, 300), "expected_count": expected.len(), "observed_count": obs_keys.len(), "text": trunc(text, 3000)}),
                ));
            }
            if let Some((sig, w)) = verdict {
                acc.violation(sig, w);
            }
        }
    }
    if nontrivial {
        acc.nontrivial_str(text);
    }
    true
}

fn normalise_edge(e: &str) -> String {
    // drop list markers' positions (already "[]") and keep at most the last 4 segments
    let segs: Vec<&str> = e.split('/').collect();
    let n = segs.len();
    segs[n.saturating_sub(6)..].join("/")
}

fn loc_start(t: &dtree::GTree, g: usize) -> Option<usize> {
    let n = &t.nodes[g];
    if n.style == dtree::Style::Paren && n.name == "File" && n.children.len() == 3 {
        return t.text(n.children[1].1).parse::<usize>().ok();
    }
    for (_, c) in &n.children {
        if let Some(v) = loc_start(t, *c) {
            return Some(v);
        }
    }
    None
}

pub fn run(ctx: &Ctx) -> i32 {
    let mut acc = Acc::default();
    let mut meta = Meta::new(
        "programs: corpus (hand-written + every parseable Solidity snippet embedded in /repo/src) and generated programs; per program: roots = file, \
         every part, every contract part, a random sample of statements/expressions; target sets = all kinds, empty, the detectors' own lists, each \
         single kind, random subsets. evaluation = one (root, target set) comparison of the walker's result with the reflected reference sequence. \
         non-trivial = program for which at least one comparison had a non-empty expected sequence; distinct by program text",
    );
    let progs = corpus::load();
    acc.cov_n("corpus:programs", progs.len() as u64);
    run_workload(ctx, &mut acc, "corpus", progs.len() as u64, |k, rng, acc| {
        let p = &progs[k as usize];
        check_text(&p.name, &p.text, rng, acc, 10, 40);
        if k < 2 {
            acc.sample(json!({"program": p.name, "bytes": p.text.len()}));
        }
    });
    let n = ctx.tier.pick(1500u64, 120000u64);
    run_workload(ctx, &mut acc, "generated", n, |k, rng, acc| {
        let cfg = if k % 3 == 0 { Cfg::hostile() } else { Cfg::normal() };
        let mut b = Builder::new(rng, cfg);
        let f = b.file();
        drop(b);
        let r = crate::gast::render(&f);
        let (laid, _) = layout::lay(&r.toks, Layout::Pretty, rng);
        let sc = crate::prog::selfcheck(&r, &laid);
        if !sc.ok {
            acc.discards += 1;
            acc.cov(&format!("discard:{}", sc.why.split(|c: char| c == ' ' || c == '@' || c == ':').next().unwrap_or("?")));
            if std::env::var("VMON_DEBUG_DISCARDS").is_ok() {
                eprintln!("DISCARD k={} {}\n{}\n", k, sc.why, laid.text);
            }
            return;
        }
        acc.cov("generated:accepted");
        check_text(&format!("gen#{}", k), &laid.text, rng, acc, 6, 30);
        if k < 2 {
            acc.sample(json!({"program": format!("gen#{}", k), "text": trunc(&laid.text, 1500)}));
        }
    });

    // deeply nested inputs (operator chains of 70-300 terms, else-if chains, nested parentheses/blocks/calls/indexes)
    let deep = crate::deep::deep_texts();
    run_workload(ctx, &mut acc, "deep", deep.len() as u64, |k, rng, acc| {
        let (n, t) = &deep[k as usize];
        if check_text(&format!("deep:{}", n), t, rng, acc, 2, 6) {
            acc.cov("deep:programs");
        }
    });
    // the hostile catalogue of C04 (old-style functions, odd pragmas, literals, many definitions) as traversal inputs
    let cat: Vec<(String, String)> = crate::mon::c04::catalogue().into_iter().filter(|(n, _)| !n.starts_with("literal-") && !n.contains(":1000") && !n.contains(":512") && !n.contains(":511")).collect();
    run_workload(ctx, &mut acc, "catalogue", cat.len() as u64, |k, rng, acc| {
        let (n, t) = &cat[k as usize];
        if crate::dets::parses(t) && check_text(&format!("catalogue:{}", n), t, rng, acc, 2, 6) {
            acc.cov("catalogue:programs");
        }
    });

    if ctx.replay.is_none() {
        let edges = acc.cov.keys().filter(|k| k.starts_with("edge:")).count();
        meta.extra.insert("distinct_edges_carrying_demanded_nodes".into(), json!(edges));
        let floor = ctx.tier.pick(120, 130);
        if edges < floor {
            acc.inconclusive(format!("edge coverage floor not met: {} distinct parent->child edges observed (< {})", edges, floor));
        }
        let total_gen = acc.cov_get("generated:accepted") + acc.discards;
        if acc.discards * 20 > total_gen.max(1) {
            acc.inconclusive(format!("generator self-check discarded {} of {} cases (> 5%)", acc.discards, total_gen));
        }
    }
    meta.assumptions = vec![
        "reference = Debug rendering of the parser's tree parsed into a generic tree; a generic node is a syntax node iff its (name, bracket style) is a pt variant; inline assembly subtrees are skipped".into(),
        "source order = pre-order of the parser's tree in field-declaration order (checked to coincide with non-decreasing start offsets; the count of exceptions is reported)".into(),
        "solang-parser is trusted".into(),
    ];
    finish(ctx, acc, meta)
}
