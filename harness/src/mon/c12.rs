//! C12 — report totals and headings agree with the findings shown.
use crate::common::*;
use crate::mon::c11::{gen_map, map_json, run_genreport, scratch_dir};
use crate::report;
use serde_json::json;

fn severity_of(p: &str) -> &'static str {
    match p {
        "unprotected_selfdestruct" => "## High Risk\n",
        "divide_before_multiply" => "## Medium Risk\n",
        _ => "## Low Risk\n",
    }
}

fn hname(h: &str) -> String {
    h.trim().trim_start_matches("## ").replace(' ', "-")
}

pub fn check_part(category: &str, m: &[(&'static str, report::Entries)], part: &report::Part, text: &str, acc: &mut Acc) {
    let shown: u64 = part.sections.iter().map(|s| s.entries.len() as u64).sum();
    if let Some(t) = part.total {
        acc.eval();
        if t != shown {
            acc.violation(
                format!("total:{}:{}", category, if t > shown { "too-high" } else { "too-low" }),
                json!({"category": category, "printed_total": t, "entries_listed": shown, "findings": map_json(m), "report": trunc(text, 2500)}),
            );
        }
    }
    if category == "vulnerabilities" {
        for h in ["## High Risk\n", "## Medium Risk\n", "## Low Risk\n"] {
            acc.eval();
            let has = m.iter().any(|(p, es)| severity_of(p) == h && crate::mon::c11::has_findings(es));
            let printed = part.headings.iter().filter(|(x, _)| x == h).count();
            if has && printed == 0 {
                acc.violation(format!("heading={}-missing", hname(h)), json!({"findings": map_json(m), "report": trunc(text, 2500)}));
            } else if !has && printed > 0 {
                acc.violation(format!("heading={}-when-empty", hname(h)), json!({"findings": map_json(m), "report": trunc(text, 2500)}));
            } else if printed > 1 {
                acc.violation(format!("heading={}-repeated", hname(h)), json!({"findings": map_json(m), "report": trunc(text, 2500)}));
            }
        }
        for s in &part.sections {
            acc.eval();
            let exp = severity_of(s.pattern);
            if s.heading.as_deref() != Some(exp) {
                acc.violation(
                    format!("severity:{}->{}", s.pattern, s.heading.as_deref().map(hname).unwrap_or_else(|| "none".into())),
                    json!({"pattern": s.pattern, "expected_heading": exp, "found_under": s.heading, "findings": map_json(m), "report": trunc(text, 2500)}),
                );
            }
        }
    }
}

pub fn run(ctx: &Ctx) -> i32 {
    let mut acc = Acc::default();
    let mut meta = Meta::new(
        "every subset (incl. empty where the API allows) of the four vulnerability patterns x random file/line multiplicities, random optimisation maps, all 8 category-presence combinations through generate_report. \
         Oracle on the parsed report: printed total == number of entries listed in that part; severity heading printed iff a finding of that severity exists; each vulnerability section under its own heading; \
         category part present iff that category's map is non-empty, in the order vulnerabilities, optimisations, QA. non-trivial = map with >= 2 patterns or >= 2 files; distinct by map content",
    );
    let table = report::section_table();
    let reps = ctx.tier.pick(500u64, 1_000_000u64);
    run_workload(ctx, &mut acc, "vulnerability-subsets", 16 * reps, |k, rng, acc| {
        let mask = k % 16;
        let m = gen_map(rng, "vulnerabilities", mask, match rng.below(20) { 0 | 1 => 30, 2 => 120, _ => 4 });
        let order: Vec<usize> = (0..m.len()).collect();
        let text = report::render_category("vulnerabilities", &m, &order, 0);
        acc.cov(&format!("vuln-subset:{:04b}", mask));
        match report::parse_category(&text, "vulnerabilities", &table) {
            Ok(part) => check_part("vulnerabilities", &m, &part, &text, acc),
            Err(e) => acc.violation("report-grammar:vulnerabilities", json!({"findings": map_json(&m), "parse_error": e, "report": trunc(&text, 2500)})),
        }
        if m.len() >= 2 || m.iter().any(|(_, e)| e.len() >= 2) {
            acc.nontrivial_h(hash_str(&map_json(&m).to_string()));
        }
        if k < 2 {
            acc.sample(json!({"category": "vulnerabilities", "findings": map_json(&m)}));
        }
    });
    meta.exhaustive_subspaces.push("all 16 subsets of the four vulnerability patterns".into());
    // very long lists: totals beyond 2^16, hundreds of lines in one file
    let sizes = [65_535usize, 65_536, 65_537, 80_000, 131_072, 300];
    run_workload(ctx, &mut acc, "huge-maps", (sizes.len() * 2 * 3) as u64, |k, rng, acc| {
        let category = ["optimizations", "vulnerabilities"][(k % 2) as usize];
        let total = sizes[((k / 2) as usize) % sizes.len()];
        let per_file = [10usize, 300, 1][((k / 12) as usize) % 3];
        let pats = crate::mon::c11::patterns_of(category);
        let p0 = pats[rng.below(pats.len())];
        let mut m: Vec<(&'static str, crate::report::Entries)> = vec![(p0, crate::mon::c11::gen_huge_entries(total, per_file))];
        let p1 = pats[rng.below(pats.len())];
        if p1 != p0 {
            m.push((p1, vec![("Small.sol".to_string(), [3, 9].into_iter().collect())]));
        }
        let order: Vec<usize> = (0..m.len()).collect();
        let text = report::render_category(category, &m, &order, 0);
        match report::parse_category(&text, category, &table) {
            Ok(part) => check_part(category, &m, &part, &text, acc),
            Err(e) => acc.violation(format!("report-grammar:{}", category), json!({"entries": total, "per_file": per_file, "parse_error": e, "report": trunc(&text, 1500)})),
        }
        acc.cov(&format!("huge-maps:{}-entries", total));
        acc.nontrivial_h(hash_str(&format!("huge{}{}{}", category, total, per_file)));
    });
    run_workload(ctx, &mut acc, "optimization-maps", 8 * reps, |_k, rng, acc| {
        let mut mask = 0u64;
        for i in 0..23 {
            if rng.chance(1, 3) {
                mask |= 1 << i;
            }
        }
        let m = gen_map(rng, "optimizations", mask, match rng.below(20) { 0 | 1 => 30, 2 => 120, _ => 4 });
        let order: Vec<usize> = (0..m.len()).collect();
        let text = report::render_category("optimizations", &m, &order, 0);
        match report::parse_category(&text, "optimizations", &table) {
            Ok(part) => check_part("optimizations", &m, &part, &text, acc),
            Err(e) => acc.violation("report-grammar:optimizations", json!({"findings": map_json(&m), "parse_error": e, "report": trunc(&text, 2500)})),
        }
        if m.len() >= 2 {
            acc.nontrivial_h(hash_str(&map_json(&m).to_string()));
        }
    });
    // category parts through generate_report
    let nfile = ctx.tier.pick(96u64, 24000u64);
    run_workload(ctx, &mut acc, "category-presence", nfile, |k, rng, acc| {
        let present = k % 8;
        let v = if present & 1 != 0 { gen_map(rng, "vulnerabilities", 1 + rng.below(15) as u64, 3) } else { vec![] };
        let o = if present & 2 != 0 { gen_map(rng, "optimizations", 1 + rng.below(1 << 10) as u64, 3) } else { vec![] };
        let q = if present & 4 != 0 { gen_map(rng, "qa", 1 + rng.below(7) as u64, 3) } else { vec![] };
        let dir = scratch_dir("c12");
        let res = run_genreport(&dir, &v, &o, &q, rng.next());
        let _ = std::fs::remove_dir_all(&dir);
        let text = match res {
            Ok(t) => t,
            Err(e) => {
                if e.starts_with("REPORT-NOT-WRITTEN") {
                    acc.eval();
                    acc.violation("report-not-written", json!({"v": map_json(&v), "o": map_json(&o), "q": map_json(&q), "detail": e}));
                } else {
                    acc.inconclusive(format!("generate_report helper: {}", e));
                }
                return;
            }
        };
        acc.eval();
        // a category part is expected iff the category has findings (keys with empty vectors do not count)
        let present = (v.iter().any(|(_, e)| crate::mon::c11::has_findings(e)) as u64) | ((o.iter().any(|(_, e)| crate::mon::c11::has_findings(e)) as u64) << 1) | ((q.iter().any(|(_, e)| crate::mon::c11::has_findings(e)) as u64) << 2);
        acc.cov(&format!("presence:{:03b}", present));
        match report::parse_report(&text, &table) {
            Err(e) => acc.violation("report-grammar:whole-file", json!({"present_mask": present, "parse_error": e, "report": trunc(&text, 2500)})),
            Ok(p) => {
                let got = (p.vuln.is_some() as u64) | ((p.opt.is_some() as u64) << 1) | ((p.qa.is_some() as u64) << 2);
                if got != present {
                    let which = if (got ^ present) & 1 != 0 { "vulnerabilities" } else if (got ^ present) & 2 != 0 { "optimizations" } else { "qa" };
                    acc.violation(format!("part:{}", which), json!({"expected_parts_mask": present, "found_parts_mask": got, "report": trunc(&text, 2500)}));
                }
                let exp_order: Vec<&str> = ["vulnerabilities", "optimizations", "qa"].into_iter().enumerate().filter(|(i, _)| present & (1 << i) != 0).map(|(_, n)| n).collect();
                if got == present && p.order != exp_order {
                    acc.violation("part:order", json!({"expected": exp_order, "found": p.order}));
                }
                if let Some(part) = &p.vuln {
                    check_part("vulnerabilities", &v, part, &text, acc);
                }
                if let Some(part) = &p.opt {
                    check_part("optimizations", &o, part, &text, acc);
                }
            }
        }
    });
    meta.exhaustive_subspaces.push("all 8 presence combinations of the three categories through generate_report".into());
    // the same through the binary: trees (with sub-directories) chosen so that some categories have no finding at all
    {
        use crate::mon::tree::*;
        let pool = pool();
        // programs by the categories in which they have findings
        let cats: Vec<(usize, u8)> = pool
            .progs
            .iter()
            .enumerate()
            .map(|(i, (_, t))| {
                let mut m = 0u8;
                for (_, d) in crate::dets::ALL.iter() {
                    if !d.lines(t, 0).is_empty() {
                        m |= match d.category() {
                            "vulnerabilities" => 1,
                            "optimizations" => 2,
                            _ => 4,
                        };
                    }
                }
                (i, m)
            })
            .collect();
        let nbin = ctx.tier.pick(60u64, 1500u64);
        run_workload(ctx, &mut acc, "binary-presence", nbin, |k, rng, acc| {
            // allowed categories for this tree
            let allow = (k % 8) as u8;
            let cands: Vec<usize> = cats.iter().filter(|(_, m)| m & !allow == 0).map(|(i, _)| *i).collect();
            let base = crate::mon::c11::scratch_dir("c12b");
            let root = format!("{}/contracts", base);
            std::fs::create_dir_all(format!("{}/inner/deeper", root)).unwrap();
            std::fs::create_dir_all(format!("{}/empty", root)).unwrap();
            let mut want = 0u8;
            for j in 0..rng.range(0, 4) {
                if cands.is_empty() {
                    break;
                }
                let i = *rng.pick(&cands);
                want |= cats[i].1;
                let dir = match rng.below(3) {
                    0 => root.clone(),
                    1 => format!("{}/inner", root),
                    _ => format!("{}/inner/deeper", root),
                };
                std::fs::write(format!("{}/F{}.sol", dir, j), pool.progs[i].1.as_bytes()).unwrap();
            }
            match run_solstat(&base, &[]) {
                Ok(out) if out.code == Some(0) => {
                    acc.eval();
                    acc.cov(&format!("binary-presence:expected-{:03b}", want));
                    let text = String::from_utf8_lossy(&out.report.unwrap_or_default()).to_string();
                    match report::parse_report(&text, &table) {
                        Ok(p) => {
                            let got = (p.vuln.is_some() as u8) | ((p.opt.is_some() as u8) << 1) | ((p.qa.is_some() as u8) << 2);
                            if got != want {
                                let which = if (got ^ want) & 1 != 0 { "vulnerabilities" } else if (got ^ want) & 2 != 0 { "optimizations" } else { "qa" };
                                acc.violation(format!("part:{}:binary", which), json!({"expected_parts_mask": want, "found_parts_mask": got, "report": trunc(&text, 1500)}));
                            }
                            if let Some(part) = &p.vuln {
                                let shown: u64 = part.sections.iter().map(|s| s.entries.len() as u64).sum();
                                if part.total != Some(shown) {
                                    acc.violation("total:vulnerabilities:binary", json!({"printed_total": part.total, "entries_listed": shown}));
                                }
                            }
                        }
                        Err(e) => acc.violation("report-grammar:binary", json!({"parse_error": e, "report": trunc(&text, 1500)})),
                    }
                }
                Ok(out) => acc.inconclusive(format!("solstat failed on a pool tree: {:?} {}", out.code, trunc(&out.stderr, 200))),
                Err(e) => acc.inconclusive(e),
            }
            let _ = std::fs::remove_dir_all(&base);
        });
    }
    if ctx.replay.is_none() {
        for mask in 0..16 {
            if acc.cov_get(&format!("vuln-subset:{:04b}", mask)) == 0 {
                acc.inconclusive(format!("vulnerability subset {:04b} never rendered", mask));
            }
        }
    }
    meta.assumptions = vec!["the report is read back with the strict grammar parser of C11; entries counted are those inside entry lists".into()];
    finish(ctx, acc, meta)
}
