//! C05–C09: spec-predicate monitors over tagged generated programs.
use crate::common::*;
use crate::dets;
use crate::gast::*;
use crate::gen::{Builder, Cfg};
use crate::layout::{self, Layout};
use crate::spec::{self, Out};
use serde_json::json;
use std::collections::BTreeSet;

pub const C05_DETS: [&str; 11] = [
    "address_balance", "address_zero", "bool_equals_bool", "assign_update_array_value", "cache_array_length", "increment_decrement",
    "multiple_require", "optimal_comparison", "shift_math", "solidity_keccak256", "solidity_math",
];
pub const C06_DETS: [&str; 5] = ["payable_function", "private_constant", "private_vars_leading_underscore", "private_func_leading_underscore", "constructor_order"];
pub const C07_DETS: [&str; 4] = ["unsafe_erc20_operation", "divide_before_multiply", "floating_pragma", "unprotected_selfdestruct"];
pub const C08_DETS: [&str; 4] = ["constant_variables", "immutable_variables", "memory_to_calldata", "sstore"];
pub const C09_DETS: [&str; 4] = ["safe_math_pre_080", "safe_math_post_080", "string_errors", "short_revert_string"];

pub struct Prepared {
    pub file: File,
    pub rendered: Rendered,
    pub out: Out,
}

/// render + generator self-check (structure and locations as predicted) + specs
pub fn prepare(file: File, acc: &mut Acc) -> Option<Prepared> {
    let r = render(&file);
    let r0 = Rng::from_seed(11);
    let (laid, _) = layout::lay(&r.toks, Layout::Pretty, &r0);
    let sc = crate::prog::selfcheck(&r, &laid);
    if !sc.ok {
        acc.discards += 1;
        acc.cov("discard:generator-selfcheck");
        if std::env::var("VMON_DEBUG_DISCARDS").is_ok() {
            eprintln!("DISCARD {}\n{}\n", sc.why, laid.text);
        }
        return None;
    }
    let out = spec::compute(&file, &r);
    Some(Prepared { file, rendered: r, out })
}

/// Judge the detectors in `which` on one layout of the program.
pub fn judge(p: &Prepared, name: &str, which: &[&'static str], l: Layout, rng: &Rng, acc: &mut Acc, extra: &serde_json::Value) {
    let (laid, _) = layout::lay(&p.rendered.toks, l, rng);
    if !dets::parses(&laid.text) {
        acc.discards += 1;
        acc.cov("discard:layout-does-not-parse");
        return;
    }
    let ntok = laid.line.len();
    let line_of = |t: usize| -> Option<i32> { if t < ntok { Some(laid.line[t]) } else { None } };
    let mut any_nontrivial = false;
    for dname in which {
        let det = dets::by_name(dname).unwrap();
        let exp = match p.out.specs.get(dname) {
            Some(e) => e,
            None => continue,
        };
        let got = match guarded(|| det.lines(&laid.text, 0)) {
            Ok(g) => g,
            Err((m, at)) => {
                acc.violation(format!("{}:panic", dname), json!({"program": name, "detector": dname, "panic": m, "at": at, "text": trunc(&laid.text, 3000)}));
                continue;
            }
        };
        acc.eval();
        let mut allowed: BTreeSet<i32> = BTreeSet::new();
        for (alts, _, _) in &exp.must {
            allowed.extend(alts.iter().filter_map(|t| line_of(*t)));
        }
        allowed.extend(exp.dont_care.iter().filter_map(|t| line_of(*t)));
        acc.cov_n(&format!("decisions:{}:MUST", dname), exp.must.len() as u64);
        acc.cov_n(&format!("decisions:{}:MUST_NOT", dname), exp.must_not.len() as u64);
        if !exp.must.is_empty() && !exp.must_not.is_empty() {
            any_nontrivial = true;
        }
        // misses
        for (alts, form, pos) in &exp.must {
            let lines: BTreeSet<i32> = alts.iter().filter_map(|t| line_of(*t)).collect();
            if lines.is_disjoint(&got) {
                acc.violation(
                    format!("{}:miss:{}@{}{}", dname, sig_form(form), pos, version_bucket(extra)),
                    json!({"program": name, "layout": l.name(), "detector": dname, "form": form, "expected_one_of_lines": lines, "tokens": alts.iter().filter(|t| **t < ntok).map(|t| p.rendered.toks[*t].s.clone()).collect::<Vec<_>>(),
                           "reported_lines": got, "extra": extra, "text": trunc(&laid.text, 4000)}),
                );
                break;
            }
        }
        // spurious
        for g in &got {
            if !allowed.contains(g) {
                let label = exp.must_not.iter().find(|(t, _)| line_of(**t) == Some(*g)).map(|(_, l)| l.clone()).unwrap_or_else(|| "unlabelled-line".to_string());
                acc.violation(
                    format!("{}:spurious:{}{}", dname, sig_form(&label), version_bucket(extra)),
                    json!({"program": name, "layout": l.name(), "detector": dname, "spurious_line": g, "nearest_must_not_form": label, "reported_lines": got, "allowed_lines": allowed, "extra": extra, "text": trunc(&laid.text, 4000)}),
                );
                break;
            }
        }
    }
    if any_nontrivial {
        acc.nontrivial_str(&laid.text);
    }
}

fn version_bucket(extra: &serde_json::Value) -> String {
    let v = match extra["version"].as_str().and_then(spec::parse_version) {
        Some(v) => v,
        None => return String::new(),
    };
    let b = if v.0 >= 1 {
        "major>=1"
    } else if v.1 >= 9 {
        "0.9+"
    } else if v >= (0, 8, 4) {
        "0.8.4-0.8.x"
    } else if v >= (0, 8, 0) {
        "0.8.0-0.8.3"
    } else {
        "<0.8.0"
    };
    match extra["placement"].as_u64() {
        Some(p) if p > 0 && p < 4 => format!("[v {}][unrelated-pragma-first]", b),
        Some(p) if p >= 5 => format!("[v {}][solidity-pragma-after-a-definition]", b),
        _ => format!("[v {}]", b),
    }
}

fn sig_form(f: &str) -> String {
    f.chars().map(|c| if c == ' ' { '_' } else { c }).take(60).collect()
}

pub fn count_forms(p: &Prepared, which: &[&'static str], acc: &mut Acc) {
    for tag in p.out.facts.positions.iter().filter(|t| t.starts_with("try-") || t.starts_with("catch-")) {
        acc.cov(&format!("programs-with:{}", tag));
    }
    for (d, form, pos) in &p.out.forms {
        if which.contains(d) {
            acc.cov(&format!("form:{}:{}", d, form));
            if form.starts_with("MUST:") {
                acc.cov(&format!("position:{}", pos));
            }
        }
    }
}

pub fn layouts_for(k: u64, tier: Tier) -> Vec<Layout> {
    let mut v = vec![Layout::OneTokenPerLine];
    match k % 3 {
        0 => v.push(Layout::Pretty),
        1 => v.push(Layout::Random),
        _ => v.push(Layout::NoFinalNewline),
    }
    if tier == Tier::Thorough {
        v.push(Layout::RandomWithPrefix);
    }
    // now and then the same tokens behind 70 000 empty lines (line numbers beyond 16 bits)
    if k % 97 == 5 {
        v.push(Layout::TallPrefix);
    }
    v
}

pub fn floors(ctx: &Ctx, acc: &mut Acc, which: &[&'static str], min_must: u64, min_not: u64) {
    if ctx.replay.is_some() {
        return;
    }
    for d in which {
        let m = acc.cov_get(&format!("decisions:{}:MUST", d));
        let n = acc.cov_get(&format!("decisions:{}:MUST_NOT", d));
        if m < min_must || n < min_not {
            acc.inconclusive(format!("coverage floor: {} had {} MUST and {} MUST_NOT decisions (floors {} / {})", d, m, n, min_must, min_not));
        }
    }
    let tot = acc.cov_get("programs:accepted") + acc.cov_get("discard:generator-selfcheck");
    if acc.cov_get("discard:generator-selfcheck") * 20 > tot.max(1) {
        acc.inconclusive(format!("generator self-check discarded {} of {} programs (> 5%)", acc.cov_get("discard:generator-selfcheck"), tot));
    }
}

/// deeply nested programs (operator chains and else-if chains of 70-300 links) with detector-relevant constructs at the deepest point
fn deep_run(ctx: &Ctx, acc: &mut Acc, which: &'static [&'static str]) {
    let n = ctx.tier.pick(24u64, 400u64);
    run_workload(ctx, acc, "deep", n, |k, rng, acc| {
        let depth = [70usize, 100, 150, 300][(k % 4) as usize];
        let f = crate::deep::deep_file(rng, depth);
        if let Some(p) = prepare(f, acc) {
            acc.cov("programs:accepted");
            acc.cov(&format!("deep:depth-{}", depth));
            count_forms(&p, which, acc);
            judge(&p, &format!("deep#{}(depth {})", k, depth), which, Layout::OneTokenPerLine, rng, acc, &json!({"depth": depth}));
        }
    });
}

fn generic_run(ctx: &Ctx, acc: &mut Acc, which: &'static [&'static str], workload: &str, n: u64, cfgf: impl Fn(u64, &Rng) -> Cfg + Sync) {
    run_workload(ctx, acc, workload, n, |k, rng, acc| {
        let mut cfg = cfgf(k, rng);
        // the detectors of C05, C06 and C08 do not look at the compiler version: any single pragma will do
        if which[..] != C07_DETS[..] && cfg.pragma.is_some() && rng.chance(1, 2) {
            cfg.pragma = Some(rng.ps(&["0.4.24", "^0.4.11", "0.5.17", "0.6.8", "0.6.12", "0.7.6", "0.8.0", "0.8.4", "0.8.17", "^0.8.0", ">=0.6.0 <0.9.0", "1.0.0"]).to_string());
        }
        if which[..] == C06_DETS[..] {
            cfg.shadow = true;
        }
        let mut b = Builder::new(rng, cfg);
        let f = b.file();
        drop(b);
        if let Some(p) = prepare(f, acc) {
            acc.cov("programs:accepted");
            count_forms(&p, which, acc);
            for l in layouts_for(k, ctx.tier) {
                judge(&p, &format!("gen#{}", k), which, l, rng, acc, &json!(null));
            }
            if k < 2 {
                let (laid, _) = layout::lay(&p.rendered.toks, Layout::Pretty, rng);
                acc.sample(json!({"program": format!("gen#{}", k), "text": trunc(&laid.text, 1800)}));
            }
        }
    });
}

// ================================================================= C05

pub fn run_c05(ctx: &Ctx) -> i32 {
    let mut acc = Acc::default();
    let mut meta = Meta::new(
        "tagged generated programs (every expression kind in every position: operands of all operators incl. ** and prefix ++/--, call / named-call / call-option / modifier / base-constructor arguments, for-header slots, conditions, initialisers, return/emit/revert operands, try expression / success block / catch bodies, index, slice, ternary arms, unchecked blocks) \
         with canonical and near-miss forms of the 11 expression-level detectors planted at random. Spec predicates on the generator's AST give MUST / MUST_NOT / DONT_CARE per construct; a run passes for (file, detector) iff must ⊆ reported ⊆ must ∪ dontcare, \
         judged in the one-token-per-line layout (line == token) and in a second layout. evaluation = one (program, layout, detector) judgement; non-trivial = program text in which some detector has both a MUST and a labelled MUST_NOT construct; distinct by text",
    );
    let n = ctx.tier.pick(3000u64, 240000u64);
    generic_run(ctx, &mut acc, &C05_DETS, "generated", n, |_k, _rng| Cfg::normal());
    deep_run(ctx, &mut acc, &C05_DETS);
    floors(ctx, &mut acc, &C05_DETS, ctx.tier.pick(500, 5000), ctx.tier.pick(500, 2000));
    let positions = acc.cov.keys().filter(|k| k.starts_with("position:")).count();
    meta.extra.insert("distinct_positions_holding_a_MUST_form".into(), json!(positions));
    meta.assumptions = vec![
        "spec predicates are the harness' reading of docs/identified-optimizations.md, the report sections and DESIGN.md section 8; debatable forms are DONT_CARE".into(),
        "generator self-check: the parser's tree has exactly the predicted node kinds and start offsets, else the program is discarded".into(),
    ];
    finish(ctx, acc, meta)
}

// ================================================================= C06

fn c06_shaped(k: u64, rng: &Rng) -> File {
    // files with several contract-like items; constructors first / after modifiers / after functions / absent; many members
    let mut b = Builder::new(rng, Cfg::normal());
    let mut items = b.pragmas();
    let n_items = rng.range(1, 5);
    for j in 0..n_items {
        let kind = *rng.pick(&["contract", "abstract contract", "library", "interface", "contract", "contract"]);
        if rng.chance(1, 4) {
            items.push(Item::Part(Part::Func(b.func(FnKind::Function, false, false))));
        }
        let mut c = b.contract();
        c.kind = kind;
        let iface = kind == "interface";
        // rebuild the member list with a controlled constructor position
        let mut parts: Vec<Part> = vec![];
        let nvars = rng.range(0, 4);
        for _ in 0..nvars {
            if !iface {
                parts.push(Part::Var(b.state_var(false)));
            }
        }
        let big = k % 50 == 7 && j == 0;
        let n_before = if big { *rng.pick(&[254usize, 255, 256, 257, 300]) } else { rng.range(0, 4) };
        let before_kind = rng.below(4);
        for i in 0..n_before {
            let fk = match before_kind {
                0 => FnKind::Modifier,
                1 => FnKind::Function,
                2 => {
                    if i == 0 {
                        FnKind::Receive
                    } else {
                        FnKind::Modifier
                    }
                }
                _ => {
                    if rng.chance(1, 2) {
                        FnKind::Function
                    } else {
                        FnKind::Modifier
                    }
                }
            };
            if iface && fk != FnKind::Function {
                continue;
            }
            if kind == "library" && (fk == FnKind::Receive) {
                continue;
            }
            let mut f = b.func(fk, true, iface);
            if big {
                f.body = f.body.map(|mut bd| {
                    if let S::Block { stmts, .. } = &mut bd.s {
                        stmts.truncate(1);
                    }
                    bd
                });
            }
            parts.push(Part::Func(f));
        }
        if !iface && kind != "library" && rng.chance(3, 4) {
            parts.push(Part::Func(b.func(FnKind::Constructor, true, false)));
        }
        for _ in 0..rng.range(0, 3) {
            parts.push(Part::Func(b.func(FnKind::Function, true, iface)));
        }
        c.parts = parts;
        items.push(Item::Contract(c));
    }
    drop(b);
    File { items }
}

pub fn run_c06(ctx: &Ctx) -> i32 {
    let mut acc = Acc::default();
    let mut meta = Meta::new(
        "files with 1-6 contract-like items (contract, abstract contract, interface, library) and free functions between them; functions of every kind x visibility x payable x body/no body; state variables of elementary and other types x constant/immutable x visibility x leading underscore; \
         constructors first / after modifiers only / after a function / after receive / absent / only in later contracts; up to 300 members before a constructor. Spec predicates (DESIGN.md 8.2) decide MUST / MUST_NOT / DONT_CARE per declaration. \
         evaluation = one (program, layout, detector) judgement; non-trivial and distinct as in C05",
    );
    let n = ctx.tier.pick(2500u64, 120000u64);
    generic_run(ctx, &mut acc, &C06_DETS, "generated", n, |_k, _rng| {
        let mut c = Cfg::normal();
        c.max_items = 6;
        c
    });
    let ns = ctx.tier.pick(1500u64, 75000u64);
    run_workload(ctx, &mut acc, "shaped", ns, |k, rng, acc| {
        let f = c06_shaped(k, rng);
        if let Some(p) = prepare(f, acc) {
            acc.cov("programs:accepted");
            acc.cov("programs:shaped");
            count_forms(&p, &C06_DETS, acc);
            let ncontracts = p.file.items.iter().filter(|i| matches!(i, Item::Contract(_))).count();
            if ncontracts >= 2 {
                acc.cov("shaped:files-with>=2-contracts");
            }
            for l in [Layout::OneTokenPerLine, Layout::Pretty] {
                judge(&p, &format!("shaped#{}", k), &C06_DETS, l, rng, acc, &json!(null));
            }
        }
    });
    floors(ctx, &mut acc, &C06_DETS, ctx.tier.pick(50, 500), ctx.tier.pick(50, 500));
    meta.assumptions = vec!["spec predicates per DESIGN.md 8.2; functions without a visibility keyword, constructors/fallback/receive for payable_function, and free functions are DONT_CARE".into()];
    finish(ctx, acc, meta)
}

// ================================================================= C07

fn c07_shaped(_k: u64, rng: &Rng) -> File {
    let mut b = Builder::new(rng, Cfg::normal());
    let mut items = vec![];
    // pragma spellings
    let id = b.ids.next();
    let ver = format!("{}.{}.{}", rng.below(2), rng.below(10), rng.below(30));
    let spell = match rng.below(9) {
        0 => ver.clone(),
        1 => format!("^{}", ver),
        2 => format!("^ {}", ver),
        3 => format!("={}", ver),
        4 => format!(">={}", ver),
        5 => format!("~{}", ver),
        6 => format!(">={} <0.9.0", ver),
        7 if rng.chance(1, 2) => format!("0.7.6 || ^{}", ver),
        7 => format!(">={} ^0.8.0", ver),
        _ => format!("^{}", ver),
    };
    items.push(Item::Pragma(id, "solidity".into(), spell));
    if rng.chance(1, 3) {
        let id = b.ids.next();
        items.push(Item::Pragma(id, "experimental".into(), "ABIEncoderV2".into()));
    }
    let mut c = b.contract();
    c.kind = "contract";
    let mut parts: Vec<Part> = vec![];
    for _ in 0..rng.range(1, 5) {
        let kind = *rng.pick(&[FnKind::Function, FnKind::Function, FnKind::Function, FnKind::Function, FnKind::Constructor, FnKind::Modifier, FnKind::Fallback]);
        let mut f = b.func(kind, true, false);
        // rewrite attributes: visibility x modifier names
        if kind == FnKind::Function {
            f.attrs.retain(|a| !matches!(a, FAttr::Vis(_) | FAttr::Modifier(..)));
            match rng.below(6) {
                0 | 1 => f.attrs.push(FAttr::Vis("public")),
                2 | 3 => f.attrs.push(FAttr::Vis("external")),
                4 => f.attrs.push(FAttr::Vis(*rng.pick(&["internal", "private"]))),
                _ => {}
            }
            if rng.chance(1, 3) {
                let m = rng.ps(&["onlyOwner", "only", "ownerOnly", "whenonlyAdmin", "OnlyOwner", "nonReentrant", "lock", "auth", "Ownable.onlyOwner"]);
                f.attrs.push(FAttr::Modifier(m.to_string(), None));
            }
        }
        // body: guard statements before/after + selfdestruct in some context
        let mut stmts: Vec<St> = vec![];
        let guard = |b: &mut Builder, rng: &Rng| -> Option<St> {
            let s = b.msg_sender();
            let o = b.var("owner_");
            Some(match rng.below(9) {
                0 => {
                    let c = b.bin(BinOp::Eq, s, o);
                    let r = b.var("require");
                    let call = b.call(r, vec![c]);
                    b.st(S::Expr(call))
                }
                1 => {
                    let c = b.bin(BinOp::Ne, s, o);
                    let r = b.var("require");
                    let m = b.ex(E::Str(vec!["\"no\"".into()]));
                    let call = b.call(r, vec![c, m]);
                    b.st(S::Expr(call))
                }
                2 => {
                    let r = b.var("_check");
                    let call = b.call(r, vec![s]);
                    b.st(S::Expr(call))
                }
                3 => {
                    // reversed comparison: DONT_CARE
                    let c = b.bin(BinOp::Eq, o, s);
                    let r = b.var("require");
                    let call = b.call(r, vec![c]);
                    b.st(S::Expr(call))
                }
                4 => {
                    let c = b.bin(BinOp::Ne, s, o);
                    let blk = b.st(S::Block { unchecked: false, stmts: vec![] });
                    b.st(S::If(c, Box::new(blk), None))
                }
                5 => {
                    let p = b.cast("payable", s);
                    let t = b.member(p, "transfer");
                    let one = b.num("1");
                    let call = b.call(t, vec![one]);
                    b.st(S::Expr(call))
                }
                6 => {
                    let e = b.var("Logged");
                    let call = b.call(e, vec![s]);
                    b.st(S::Emit(call))
                }
                7 => {
                    let a = b.var("flag");
                    let c0 = b.bin(BinOp::Eq, s, o);
                    let c = b.bin(BinOp::And, a, c0);
                    let r = b.var("require");
                    let call = b.call(r, vec![c]);
                    b.st(S::Expr(call))
                }
                _ => return None,
            })
        };
        if rng.chance(1, 2) {
            if let Some(g) = guard(&mut b, rng) {
                stmts.push(g);
            }
        }
        let callee = b.var(rng.ps(&["selfdestruct", "selfdestruct", "suicide", "selfDestruct"]));
        let arg = match rng.below(5) {
            0 => b.msg_sender(),
            1 => {
                let s = b.msg_sender();
                b.cast("payable", s)
            }
            2 => {
                let s = b.msg_sender();
                b.cast("address", s)
            }
            3 => b.var("owner_"),
            _ => {
                let o = b.var("owner_");
                let u = b.cast("uint160", o);
                b.cast("address", u)
            }
        };
        let sd = b.call(callee, vec![arg]);
        let sd_stmt = b.st(S::Expr(sd));
        let wrapped = match rng.below(7) {
            0 => sd_stmt,
            1 => {
                let c = b.var("flag");
                let blk = b.st(S::Block { unchecked: false, stmts: vec![sd_stmt] });
                b.st(S::If(c, Box::new(blk), None))
            }
            2 => b.st(S::Block { unchecked: true, stmts: vec![sd_stmt] }),
            3 => {
                let t = b.var("target");
                let f2 = b.member(t, "ping");
                let call = b.call(f2, vec![]);
                let ok = b.st(S::Block { unchecked: false, stmts: vec![] });
                let cb = b.st(S::Block { unchecked: false, stmts: vec![sd_stmt] });
                let ty = b.ty("uint256");
                b.st(S::Try { expr: call, returns: Some((vec![Param { ty, storage: None, name: Some("v".into()) }], Box::new(ok))), catches: vec![Catch::Simple(None, cb)] })
            }
            4 => {
                let c = b.var("flag");
                let blk = b.st(S::Block { unchecked: false, stmts: vec![sd_stmt] });
                b.st(S::While(c, Box::new(blk)))
            }
            5 => {
                let c = b.var("flag");
                let e = b.st(S::Block { unchecked: false, stmts: vec![] });
                let blk = b.st(S::Block { unchecked: false, stmts: vec![sd_stmt] });
                b.st(S::If(c, Box::new(e), Some(Box::new(blk))))
            }
            _ => sd_stmt,
        };
        stmts.push(wrapped);
        if rng.chance(1, 3) {
            if let Some(g) = guard(&mut b, rng) {
                stmts.push(g);
            }
        }
        // erc20-ish and div/mul statements
        for _ in 0..rng.range(0, 2) {
            stmts.push(b.stmt(1));
        }
        f.body = Some(b.st(S::Block { unchecked: false, stmts }));
        parts.push(Part::Func(f));
    }
    // now and then the contract itself defines a modifier that its functions invoke, with or without a mention of
    // msg.sender in its body (the verdict on a function is about the function's own text)
    if rng.chance(1, 3) {
        let invoked: Vec<String> = parts.iter().filter_map(|p| if let Part::Func(f) = p { Some(f) } else { None }).flat_map(|f| f.attrs.iter()).filter_map(|a| if let FAttr::Modifier(n, _) = a { Some(n.clone()) } else { None }).filter(|n| !n.contains('.')).collect();
        if !invoked.is_empty() {
            let name = rng.pick(&invoked).clone();
            let mut m = b.func(FnKind::Modifier, true, false);
            m.name = Some(name);
            m.params = if rng.chance(1, 2) { None } else { Some(vec![]) };
            let mut stmts: Vec<St> = vec![];
            match rng.below(3) {
                0 => {
                    let s0 = b.msg_sender();
                    let o = b.var("owner_");
                    let cmp = b.bin(BinOp::Eq, s0, o);
                    let rq = b.var("require");
                    let call = b.call(rq, vec![cmp]);
                    stmts.push(b.st(S::Expr(call)));
                }
                1 => {
                    let chk = b.var("_checkOwner");
                    let call = b.call(chk, vec![]);
                    stmts.push(b.st(S::Expr(call)));
                }
                _ => {}
            }
            let u = b.var("_");
            stmts.push(b.st(S::Expr(u)));
            m.body = Some(b.st(S::Block { unchecked: false, stmts }));
            let at = rng.below(parts.len() + 1);
            parts.insert(at, Part::Func(m));
        }
    }
    c.parts = parts;
    items.push(Item::Contract(c));
    // a second contract that holds a guard only (must not protect the first)
    if rng.chance(1, 3) {
        items.push(Item::Contract(b.contract()));
    }
    drop(b);
    File { items }
}

pub fn run_c07(ctx: &Ctx) -> i32 {
    let mut acc = Acc::default();
    let mut meta = Meta::new(
        "generated programs plus shaped files for the vulnerability detectors: selfdestruct/suicide calls at statement level, inside if/else, while, unchecked, try-catch bodies; arguments msg.sender, payable(msg.sender), address(msg.sender), owner, casts; \
         guards before / after (require(msg.sender == x), require(msg.sender != x, s), _check(msg.sender), reversed comparison, if-revert, payable(msg.sender).transfer, emit, nested &&); all visibility x modifier-name combinations (onlyOwner, only, ownerOnly, whenonlyAdmin, OnlyOwner, nonReentrant, path-qualified); \
         multiplication/division chains with parentheses; /= chains over ten operators; member names transfer/transferFrom/approve and look-alikes on every receiver shape; pragma spellings (none, ^, '^ ', =, >=, ~, ranges). \
         evaluation = one (program, layout, detector) judgement; non-trivial and distinct as in C05",
    );
    let n = ctx.tier.pick(2500u64, 240000u64);
    generic_run(ctx, &mut acc, &C07_DETS, "generated", n, |k, _rng| if k % 3 == 0 { Cfg { pragma: None, hostile: false, ..Cfg::normal() } } else { Cfg::normal() });
    let ns = ctx.tier.pick(3000u64, 300000u64);
    run_workload(ctx, &mut acc, "shaped", ns, |k, rng, acc| {
        let f = c07_shaped(k, rng);
        if let Some(p) = prepare(f, acc) {
            acc.cov("programs:accepted");
            acc.cov("programs:shaped");
            count_forms(&p, &C07_DETS, acc);
            for l in [Layout::OneTokenPerLine, if k % 2 == 0 { Layout::Pretty } else { Layout::Random }] {
                judge(&p, &format!("shaped#{}", k), &C07_DETS, l, rng, acc, &json!(null));
            }
            if k < 2 {
                let (laid, _) = layout::lay(&p.rendered.toks, Layout::Pretty, rng);
                acc.sample(json!({"program": format!("shaped#{}", k), "text": trunc(&laid.text, 1500)}));
            }
        }
    });
    deep_run(ctx, &mut acc, &C07_DETS);
    floors(ctx, &mut acc, &C07_DETS, ctx.tier.pick(50, 500), ctx.tier.pick(50, 500));
    meta.assumptions = vec!["spec predicates per DESIGN.md 8.3; reversed comparisons, if-revert guards, emit arguments, capitalised 'Only', named-argument calls and functions without visibility are DONT_CARE".into()];
    finish(ctx, acc, meta)
}

// ================================================================= C08

/// plant a write `v <op> …` in a chosen syntactic position of a function of the contract
fn c08_shaped(k: u64, rng: &Rng) -> File {
    let mut b = Builder::new(rng, Cfg::normal());
    let mut items = b.pragmas();
    let mut c = b.contract();
    c.kind = "contract";
    c.bases.clear();
    let mut parts: Vec<Part> = vec![];
    // state variables of every elementary type x attribute
    let types = ["uint256", "uint8", "bool", "address", "bytes32", "string", "bytes", "int128", "address payable"];
    let mut vars: Vec<String> = vec![];
    for _ in 0..rng.range(2, 6) {
        let mut v = b.state_var(false);
        v.ty = b.ty(rng.ps(&types));
        v.attrs.clear();
        match rng.below(8) {
            0 => v.attrs.push("constant"),
            1 => v.attrs.push("immutable"),
            _ => {}
        }
        if rng.chance(1, 2) {
            v.attrs.push(*rng.pick(&["public", "private", "internal"]));
        }
        if v.attrs.contains(&"constant") && v.init.is_none() {
            v.init = Some(b.num("1"));
        }
        vars.push(v.name.clone());
        parts.push(Part::Var(v));
    }
    // constructor assigning some of them
    let mut ctor = b.func(FnKind::Constructor, true, false);
    let mut cst: Vec<St> = vec![];
    for v in &vars {
        if rng.chance(1, 2) {
            let l = b.var(v);
            let r = match rng.below(8) {
                6 | 7 => {
                    // a member call whose member name is spelled like something else (`concat`, `encode`, `pack`, `length`)
                    let recv = b.var(rng.ps(&["Packer", "p_init", "helperLib"]));
                    let m = b.member(recv, rng.ps(&["concat", "encode", "pack", "join", "toUint"]));
                    let x = b.var("p_init");
                    let y = b.num("1");
                    b.call(m, vec![x, y])
                }
                0 => b.num("7"),
                1 => b.msg_sender(),
                2 => b.var("p_init"),
                3 => b.ex(E::Str(vec!["\"name\"".into()])),
                4 => {
                    let x = b.var("p_init");
                    b.cast("uint8", x)
                }
                _ => {
                    let x = b.var("p_init");
                    let one = b.num("1");
                    b.bin(BinOp::Add, x, one)
                }
            };
            let e = b.bin(BinOp::Assign, l, r);
            cst.push(b.st(S::Expr(e)));
        }
    }
    ctor.body = Some(b.st(S::Block { unchecked: false, stmts: cst }));
    if rng.chance(4, 5) {
        parts.push(Part::Func(ctor));
    }
    // functions with writes in chosen positions
    let nf = rng.range(1, 3);
    for fi in 0..nf {
        let kind = *rng.pick(&[FnKind::Function, FnKind::Function, FnKind::Function, FnKind::Modifier, FnKind::Fallback]);
        let mut f = b.func(kind, true, false);
        // memory parameters
        if kind == FnKind::Function {
            let mut ps = vec![];
            for j in 0..rng.range(0, 3) {
                let base = b.ty(rng.ps(&["uint256", "bytes32", "address"]));
                let ty = if rng.chance(1, 2) { b.ex(E::Index(Box::new(base), None)) } else { b.ty(rng.ps(&["string", "bytes"])) };
                ps.push(Param { ty, storage: Some(*rng.pick(&["memory", "memory", "calldata"])), name: if rng.chance(5, 6) { Some(format!("mp{}_{}_{}", k % 1000, fi, j)) } else { None } });
            }
            f.params = Some(ps);
        }
        let mut stmts: Vec<St> = vec![];
        let targets: Vec<String> = vars.iter().cloned().chain(f.params.iter().flatten().filter_map(|p| p.name.clone())).collect();
        // reads that merely look like writes: a parameter or a state variable as the index / key of an assigned element of
        // something else, and a field spelled like a state variable
        if rng.chance(1, 2) && !targets.is_empty() {
            let tname = rng.pick(&targets).clone();
            let e = match rng.below(4) {
                0 => {
                    let reg = b.var("registry_");
                    let key = b.var(&tname);
                    let lhs = b.ex(E::Index(Box::new(reg), Some(Box::new(key))));
                    let r = b.msg_sender();
                    b.bin(BinOp::Assign, lhs, r)
                }
                1 => {
                    let reg = b.var("totals_");
                    let key0 = b.var(&tname);
                    let z = b.num("0");
                    let key = b.ex(E::Index(Box::new(key0), Some(Box::new(z))));
                    let lhs = b.ex(E::Index(Box::new(reg), Some(Box::new(key))));
                    let r = b.num("7");
                    b.bin(BinOp::AssignAdd, lhs, r)
                }
                2 => {
                    let holder = b.var("holder_");
                    let lhs = b.member(holder, &tname);
                    let r = b.num("5");
                    b.bin(BinOp::Assign, lhs, r)
                }
                _ => {
                    let pts = b.var("points_");
                    let i = b.num("2");
                    let el = b.ex(E::Index(Box::new(pts), Some(Box::new(i))));
                    let lhs = b.member(el, &tname);
                    let r = b.num("9");
                    b.bin(BinOp::Assign, lhs, r)
                }
            };
            stmts.push(b.st(S::Expr(e)));
        }
        for _ in 0..rng.range(1, 4) {
            if targets.is_empty() {
                break;
            }
            let tname = rng.pick(&targets).clone();
            let tv = b.var(&tname);
            let target = match rng.below(8) {
                0..=4 => tv,
                5 => {
                    let i = b.num("0");
                    b.ex(E::Index(Box::new(tv), Some(Box::new(i))))
                }
                6 => b.member(tv, "field"),
                _ => b.ex(E::Paren(Box::new(tv))),
            };
            let rhs = b.small_expr(1);
            let w = match rng.below(16) {
                0..=10 => {
                    let op = ASSIGN_BIN[rng.below(11)];
                    b.bin(op, target, rhs)
                }
                11 => b.ex(E::PostInc(Box::new(target))),
                12 => b.ex(E::PostDec(Box::new(target))),
                13 => b.ex(E::Un(UnOp::PreInc, Box::new(target))),
                14 => b.ex(E::Un(UnOp::PreDec, Box::new(target))),
                _ => b.ex(E::Un(UnOp::Delete, Box::new(target))),
            };
            // position of the write
            let st = match rng.below(16) {
                0 | 1 => b.st(S::Expr(w)),
                14 | 15 => {
                    // the write is the right-hand side of a plain assignment to (another) state variable: a = b = v
                    let on: String = rng.pick(&vars).clone();
                    let outer = b.var(&on);
                    let e = b.bin(BinOp::Assign, outer, w);
                    b.st(S::Expr(e))
                }
                2 => {
                    let x = b.var("x");
                    let e = b.bin(BinOp::Pow, x, w);
                    b.st(S::Expr(e))
                }
                3 => {
                    let inner = b.ex(E::Paren(Box::new(w)));
                    let e = b.ex(E::Un(UnOp::PreInc, Box::new(inner)));
                    // ++(v = 1) is odd but parses; keeps the write under a prefix operator
                    b.st(S::Expr(e))
                }
                4 => {
                    let t = b.var("target");
                    let m = b.member(t, "ping");
                    let call = b.call(m, vec![]);
                    let ok = b.st(S::Block { unchecked: false, stmts: vec![] });
                    let ws = b.st(S::Expr(w));
                    let cb = b.st(S::Block { unchecked: false, stmts: vec![ws] });
                    b.st(S::Try { expr: call, returns: None, catches: vec![Catch::Simple(None, cb)] })
                    .clone()
                }
                5 => {
                    let hf = b.var("helper");
                    let call = b.call(hf, vec![w]);
                    b.st(S::Expr(call))
                }
                6 => {
                    let c = b.var("flag");
                    let ws = b.st(S::Expr(w));
                    let blk = b.st(S::Block { unchecked: true, stmts: vec![ws] });
                    b.st(S::If(c, Box::new(blk), None))
                }
                7 => {
                    let ws = b.st(S::Expr(w));
                    let c = b.var("flag");
                    b.st(S::For { init: None, cond: Some(c), next: Some(Box::new(ws)), body: None })
                }
                8 => b.st(S::Return(Some(w))),
                9 => {
                    let c = b.var("flag");
                    let o = b.num("1");
                    let e = b.ex(E::Ternary(Box::new(c), Box::new(w), Box::new(o)));
                    b.st(S::Expr(e))
                }
                10 => {
                    let a = b.var("arr");
                    let e = b.ex(E::Index(Box::new(a), Some(Box::new(w))));
                    b.st(S::Expr(e))
                }
                11 => {
                    // modifier argument position
                    f.attrs.push(FAttr::Modifier("guarded".into(), Some(vec![w])));
                    continue;
                }
                12 => {
                    let ws = b.st(S::Expr(w));
                    let c = b.var("flag");
                    let blk = b.st(S::Block { unchecked: false, stmts: vec![ws] });
                    b.st(S::DoWhile(Box::new(blk), c))
                }
                _ => {
                    let ev = b.var("Logged");
                    let call = b.call(ev, vec![w]);
                    b.st(S::Emit(call))
                }
            };
            stmts.push(st);
        }
        if kind == FnKind::Modifier {
            let u = b.var("_");
            stmts.push(b.st(S::Expr(u)));
        }
        for st in stmts.iter_mut() {
            // precedence repair of every top-level expression
            fix_stmt(st, &mut b.ids);
        }
        for a in f.attrs.iter_mut() {
            if let FAttr::Modifier(_, Some(args)) = a {
                for x in args.iter_mut() {
                    fix_parens(x, &mut b.ids);
                }
            }
        }
        f.body = Some(b.st(S::Block { unchecked: false, stmts }));
        parts.push(Part::Func(f));
    }
    // members in any order: writers above the constructor, variables declared below their uses
    if rng.chance(1, 2) {
        rng.shuffle(&mut parts);
    }
    c.parts = parts;
    let base_name = c.name.clone();
    items.push(Item::Contract(c));
    // now and then a derived contract (no constructor of its own) that writes the base contract's variables
    if !vars.is_empty() && rng.chance(1, 3) {
        let mut d = b.contract();
        d.kind = "contract";
        d.bases = vec![(base_name, None)];
        let mut f = b.func(FnKind::Function, true, false);
        f.attrs = vec![FAttr::Vis("external")];
        let mut stmts = vec![];
        for _ in 0..rng.range(1, 2) {
            let vn: String = rng.pick(&vars).clone();
            let v = b.var(&vn);
            let r = b.num("3");
            let op = *rng.pick(&[BinOp::Assign, BinOp::AssignAdd, BinOp::AssignOr]);
            let e = b.bin(op, v, r);
            stmts.push(b.st(S::Expr(e)));
        }
        f.body = Some(b.st(S::Block { unchecked: false, stmts }));
        d.parts = if rng.chance(1, 3) { vec![] } else { vec![Part::Func(f)] };
        // ... and now and then with a constructor of its own that assigns them
        if rng.chance(1, 2) {
            let mut ctor = b.func(FnKind::Constructor, true, false);
            ctor.attrs.clear();
            ctor.params = Some(vec![]);
            let mut cst = vec![];
            for _ in 0..rng.range(1, 2) {
                let vn: String = rng.pick(&vars).clone();
                let v = b.var(&vn);
                let r = b.num("5");
                let e = b.bin(BinOp::Assign, v, r);
                cst.push(b.st(S::Expr(e)));
            }
            ctor.body = Some(b.st(S::Block { unchecked: false, stmts: cst }));
            let at = rng.below(d.parts.len() + 1);
            d.parts.insert(at, Part::Func(ctor));
        }
        // the deriving contract may stand in front of its base
        if rng.chance(1, 3) {
            let at = items.len() - 1;
            items.insert(at, Item::Contract(d));
        } else {
            items.push(Item::Contract(d));
        }
    }
    drop(b);
    File { items }
}

fn fix_stmt(s: &mut St, ids: &mut IdGen) {
    match &mut s.s {
        S::Expr(e) | S::Emit(e) => fix_parens(e, ids),
        S::Return(Some(e)) => fix_parens(e, ids),
        S::Block { stmts, .. } => {
            for x in stmts {
                fix_stmt(x, ids);
            }
        }
        S::If(c, a, b) => {
            fix_parens(c, ids);
            fix_stmt(a, ids);
            if let Some(b) = b {
                fix_stmt(b, ids);
            }
        }
        S::While(c, b) => {
            fix_parens(c, ids);
            fix_stmt(b, ids);
        }
        S::DoWhile(b, c) => {
            fix_stmt(b, ids);
            fix_parens(c, ids);
        }
        S::For { init, cond, next, body } => {
            if let Some(i) = init {
                fix_stmt(i, ids);
            }
            if let Some(c) = cond {
                fix_parens(c, ids);
            }
            if let Some(n) = next {
                fix_stmt(n, ids);
            }
            if let Some(b) = body {
                fix_stmt(b, ids);
            }
        }
        S::Try { expr, returns, catches } => {
            fix_parens(expr, ids);
            if let Some((_, b)) = returns {
                fix_stmt(b, ids);
            }
            for c in catches {
                match c {
                    Catch::Simple(_, b) | Catch::Named(_, _, b) => fix_stmt(b, ids),
                }
            }
        }
        _ => {}
    }
}

pub fn run_c08(ctx: &Ctx) -> i32 {
    let mut acc = Acc::default();
    let mut meta = Meta::new(
        "generated programs plus shaped contracts: state variables of every elementary type x {plain, constant, immutable} x visibility x initialiser; constructors assigning some of them from literals, msg.sender, parameters, casts, arithmetic or strings; \
         functions / modifiers / fallback with each of the 15 write operators (=, 10 compound, ++/-- prefix and postfix) and delete applied to a state variable or memory parameter directly, through an index, a member or parentheses, planted as a statement, under **, under a prefix operator, in a catch body, call argument, unchecked block, for-update, return, ternary arm, index, modifier argument, do-while body, emit argument. \
         Spec predicates (DESIGN.md 8.4) on the generator's AST. evaluation = one (program, layout, detector) judgement; non-trivial and distinct as in C05",
    );
    let n = ctx.tier.pick(2500u64, 200000u64);
    generic_run(ctx, &mut acc, &C08_DETS, "generated", n, |_k, _rng| Cfg::normal());
    let ns = ctx.tier.pick(4000u64, 300000u64);
    run_workload(ctx, &mut acc, "shaped", ns, |k, rng, acc| {
        let f = c08_shaped(k, rng);
        if let Some(p) = prepare(f, acc) {
            acc.cov("programs:accepted");
            acc.cov("programs:shaped");
            count_forms(&p, &C08_DETS, acc);
            for wr in &p.out.facts.writes {
                acc.cov(&format!("write:{}@{}", wr.op, wr.pos));
            }
            for l in [Layout::OneTokenPerLine, if k % 2 == 0 { Layout::Pretty } else { Layout::Random }] {
                judge(&p, &format!("shaped#{}", k), &C08_DETS, l, rng, acc, &json!(null));
            }
            if k < 2 {
                let (laid, _) = layout::lay(&p.rendered.toks, Layout::Pretty, rng);
                acc.sample(json!({"program": format!("shaped#{}", k), "text": trunc(&laid.text, 1500)}));
            }
        }
    });
    deep_run(ctx, &mut acc, &C08_DETS);
    floors(ctx, &mut acc, &C08_DETS, ctx.tier.pick(50, 500), ctx.tier.pick(50, 500));
    let cells = acc.cov.keys().filter(|k| k.starts_with("write:")).count();
    meta.extra.insert("distinct_write_operator_x_position_cells".into(), json!(cells));
    meta.assumptions = vec![
        "state-variable names are unique in the file and never shadowed (generator invariant)".into(),
        "tuple targets, delete, member/index/parenthesised targets, writes outside function bodies, non-elementary types are DONT_CARE (DESIGN.md 8.4)".into(),
    ];
    finish(ctx, acc, meta)
}

// ================================================================= C09

fn c09_file(version: &str, spelling: usize, placement: usize, body_kind: usize, rng: &Rng) -> File {
    let mut b = Builder::new(rng, Cfg { safemath: false, ..Cfg::normal() });
    let ops = ["", "^", "~", "=", ">=", ">", "^ ", ">= "];
    let val = format!("{}{}", ops[spelling % ops.len()], version);
    let mut items: Vec<Item> = vec![];
    let sol = |b: &mut Builder| Item::Pragma(b.ids.next(), "solidity".into(), val.clone());
    let exp_value = rng.ps(&["ABIEncoderV2", "ABIEncoderV2", "SMTChecker", "\"v0.5.0\"", "\"v0.9.9\""]).to_string();
    let exp = |b: &mut Builder| Item::Pragma(b.ids.next(), "experimental".into(), exp_value.clone());
    let abi = |b: &mut Builder| Item::Pragma(b.ids.next(), "abicoder".into(), "v2".into());
    match placement {
        0 => items.push(sol(&mut b)),
        1 => {
            items.push(exp(&mut b));
            items.push(sol(&mut b));
        }
        2 => {
            items.push(abi(&mut b));
            items.push(sol(&mut b));
        }
        3 => {
            items.push(exp(&mut b));
            items.push(sol(&mut b));
            items.push(abi(&mut b));
        }
        5 | 6 => {} // the solidity pragma follows the first definition / closes the file (added below)
        _ => items.push(sol(&mut b)),
    }
    // body: SafeMath at contract level / file level / absent; requires with strings of various lengths
    if body_kind == 1 {
        let id = b.ids.next();
        let t = b.ty("uint256");
        items.push(Item::Part(Part::Using(id, vec!["SafeMath".into()], false, Some(t), false)));
    }
    let mut c = b.contract();
    c.kind = "contract";
    c.bases.clear();
    let mut parts: Vec<Part> = vec![];
    if body_kind == 0 {
        if rng.chance(1, 3) {
            // another using directive (a function list, or another library) before the SafeMath one
            let id = b.ids.next();
            let t = b.ty("uint256");
            if rng.chance(1, 2) {
                parts.push(Part::Using(id, vec!["double".into(), "Lib.triple".into()], true, Some(t), false));
            } else {
                parts.push(Part::Using(id, vec![rng.ps(&["Address", "EnumerableSet", "EnumerableMap", "Math"]).to_string()], false, Some(t), false));
            }
        }
        let id = b.ids.next();
        let t = b.ty("uint256");
        // the library may be named through a path (`using Libs.SafeMath for uint256;`)
        let lib = if rng.chance(1, 5) { rng.ps(&["Libs.SafeMath", "math.SafeMath", "a.b.SafeMath"]).to_string() } else { "SafeMath".to_string() };
        parts.push(Part::Using(id, vec![lib], false, Some(t), false));
    }
    let mut f = b.func(FnKind::Function, true, false);
    let mut stmts: Vec<St> = vec![];
    for m in ["add", "sub", "mul", "div", "mod", "mulDiv"] {
        if rng.chance(2, 3) {
            let x = b.var("x");
            let mm = b.member(x, m);
            let y = b.small_expr(0);
            let call = b.call(mm, vec![y]);
            // the result assigned, or the call standing alone as a statement
            if rng.chance(1, 4) {
                stmts.push(b.st(S::Expr(call)));
            } else {
                let l = b.var("y");
                let e = b.bin(BinOp::Assign, l, call);
                stmts.push(b.st(S::Expr(e)));
            }
        }
    }
    let long256 = format!("\"{}\"", "a 256 byte long message..........".repeat(8));
    let long260 = format!("\"{}abcd\"", "a 260 byte long message..........".repeat(8));
    let long287 = format!("\"{}{}\"", "a 287 byte long message..........".repeat(8), "x".repeat(31));
    let long530 = format!("\"{}{}\"", "a 530 byte long message..........".repeat(16), "y".repeat(18));
    let strings: Vec<&str> = vec!["\"\"", "\"short\"", "'thirty-one bytes long string 01'", "\"thirty-two bytes long string  012\"", "\"thirty-three bytes long string 0123\"", "\"a revert reason that is considerably longer than thirty-two bytes, one hundred bytes or so in total....\"", &long256, &long260, &long287, &long530];
    for s in strings.iter() {
        if rng.chance(2, 3) {
            let r = b.var("require");
            let c0 = b.small_expr(0);
            let lit = b.ex(E::Str(vec![s.to_string()]));
            // the literal as last of two arguments (usual), first of two (not a message), alone, or last of three
            let args = match rng.below(12) {
                0 | 1 => vec![lit, c0],
                2 => vec![lit],
                3 => {
                    let mid = b.num("7");
                    vec![c0, mid, lit]
                }
                _ => vec![c0, lit],
            };
            let call = b.call(r, args);
            stmts.push(b.st(S::Expr(call)));
        }
    }
    if rng.chance(1, 2) {
        let r = b.var("require");
        let c0 = b.small_expr(0);
        let call = b.call(r, vec![c0]);
        stmts.push(b.st(S::Expr(call)));
    }
    if rng.chance(1, 2) {
        // a message written as adjacent literals: first part long (>= 32 bytes) or the whole message short
        let r = b.var("require");
        let c0 = b.small_expr(0);
        let parts_: Vec<String> = if rng.chance(1, 2) { vec!["\"the first part alone is longer than 32 bytes, \"".into(), "\"and there is more\"".into()] } else { vec!["\"ab\"".into(), "\"cd\"".into()] };
        let lit = b.ex(E::Str(parts_));
        let call = b.call(r, vec![c0, lit]);
        stmts.push(b.st(S::Expr(call)));
    }
    rng.shuffle(&mut stmts);
    f.body = Some(b.st(S::Block { unchecked: false, stmts }));
    parts.push(Part::Func(f));
    // now and then a receive / fallback function whose modifier invocation carries a SafeMath call and a require with a
    // message in its arguments (sites like any other)
    if rng.chance(1, 3) {
        let kind = if rng.chance(1, 2) { FnKind::Receive } else { FnKind::Fallback };
        let mut rf = b.func(kind, true, false);
        rf.attrs = vec![FAttr::Vis("external"), FAttr::Mut("payable")];
        let x = b.var("x");
        let m = b.member(x, rng.ps(&["add", "sub", "mul", "div"]));
        let one = b.num("1");
        let sm = b.call(m, vec![one]);
        let rq = b.var("require");
        let c0 = b.var("flag");
        let lit = b.ex(E::Str(vec![rng.ps(&["\"short\"", "\"a revert reason that is considerably longer than thirty-two bytes\""]).to_string()]));
        let rcall = b.call(rq, vec![c0, lit]);
        let mut margs = vec![sm, rcall];
        rng.shuffle(&mut margs);
        rf.attrs.push(FAttr::Modifier("guarded".into(), Some(margs)));
        rf.body = Some(b.st(S::Block { unchecked: false, stmts: vec![] }));
        let at = rng.below(parts.len() + 1);
        parts.insert(at, Part::Func(rf));
    }
    // where the directive stands does not matter: in front of the calling function (as built), behind it, in a
    // later contract of the file, or (file level) behind the contract
    let where_using = rng.below(4);
    let mut later: Option<Contract> = None;
    if body_kind == 0 && where_using >= 2 {
        if let Some(pos) = parts.iter().rposition(|p| matches!(p, Part::Using(..))) {
            let u = parts.remove(pos);
            if where_using == 2 {
                parts.push(u);
            } else {
                let mut l = b.contract();
                l.kind = "contract";
                l.bases.clear();
                l.parts = vec![u];
                later = Some(l);
            }
        }
    }
    c.parts = parts;
    items.push(Item::Contract(c));
    if let Some(l) = later {
        items.push(Item::Contract(l));
    }
    if body_kind == 1 && where_using == 3 {
        if let Some(pos) = items.iter().position(|i| matches!(i, Item::Part(Part::Using(..)))) {
            let u = items.remove(pos);
            items.push(u);
        }
    }
    if placement == 4 {
        items.push(abi(&mut b));
    }
    if placement == 5 {
        items.push(sol(&mut b));
        let id = b.ids.next();
        items.push(Item::Part(Part::Enum(id, "Tail".into(), vec!["A".into()])));
    }
    if placement == 6 {
        let id = b.ids.next();
        items.push(Item::Part(Part::Enum(id, "Tail".into(), vec!["A".into()])));
        items.push(sol(&mut b));
    }
    drop(b);
    File { items }
}

pub fn run_c09(ctx: &Ctx) -> i32 {
    let mut acc = Acc::default();
    let mut meta = Meta::new(
        "version sweep: every triple 0.m.p (m 0..=20, p 0..=40) and 1.m.p (m 0..=2, p 0..=40) = 984 versions x operator spelling (none, ^, ~, =, >=, >, with and without a space; rotated per version, all 8 over the run) x placement of unrelated pragmas (none, experimental before, abicoder before, both around, after the first contract) \
         x body (SafeMath attached at contract level, at file level, absent; x.add/sub/mul/div and look-alikes; require with 0/5/31/32/33/100-byte single- and double-quoted strings as last and non-last argument). Plus random triples with components up to 10^9 and generated bodies. \
         Oracle: version model (tuple order, thresholds 0.8.0 and 0.8.4) on the generator's AST. evaluation = one (program, layout, detector) judgement; non-trivial and distinct as in C05",
    );
    // enumerate versions
    let mut versions: Vec<(u64, u64, u64)> = vec![];
    for m in 0..=20 {
        for p in 0..=40 {
            versions.push((0, m, p));
        }
    }
    for m in 0..=2 {
        for p in 0..=40 {
            versions.push((1, m, p));
        }
    }
    let per_version = ctx.tier.pick(4u64, 300u64);
    let nv = versions.len() as u64;
    run_workload(ctx, &mut acc, "version-sweep", nv * per_version, |k, rng, acc| {
        let v = versions[(k % nv) as usize];
        let rep = k / nv;
        let spelling = ((k % nv) + rep * 3) as usize % 8;
        let placement = ((k % nv) / 7 + rep) as usize % 7;
        let body_kind = (k as usize + rep as usize) % 3;
        let vs = format!("{}.{}.{}", v.0, v.1, v.2);
        let f = c09_file(&vs, spelling, placement, body_kind, rng);
        if let Some(p) = prepare(f, acc) {
            acc.cov("programs:accepted");
            count_forms(&p, &C09_DETS, acc);
            acc.cov(&format!("spelling:{}", spelling));
            acc.cov(&format!("placement:{}", placement));
            acc.cov(&format!("body:{}", ["safemath-in-contract", "safemath-at-file-level", "no-safemath"][body_kind]));
            let extra = json!({"version": vs, "spelling": spelling, "placement": placement});
            judge(&p, &format!("v{}#{}", vs, rep), &C09_DETS, if rep % 2 == 0 { Layout::OneTokenPerLine } else { Layout::Pretty }, rng, acc, &extra);
            if k == 300 {
                let (laid, _) = layout::lay(&p.rendered.toks, Layout::Pretty, rng);
                acc.sample(json!({"version": vs, "text": trunc(&laid.text, 1500)}));
            }
        }
    });
    meta.exhaustive_subspaces.push("all 984 version triples 0.0.0..0.20.40 and 1.0.0..1.2.40, each with at least two bodies".into());
    // around the two thresholds every operator spelling and every placement is crossed with every version
    let mut boundary: Vec<(u64, u64, u64)> = vec![];
    for (m, ps) in [(7u64, vec![0u64, 6, 255]), (8, vec![0, 1, 2, 3, 4, 5, 10]), (9, vec![0, 3, 4])] {
        for p in ps {
            boundary.push((0, m, p));
        }
    }
    boundary.push((1, 0, 0));
    let nb = boundary.len() as u64;
    run_workload(ctx, &mut acc, "threshold-cross", nb * 8 * 7, |k, rng, acc| {
        let v = boundary[(k % nb) as usize];
        let spelling = ((k / nb) % 8) as usize;
        let placement = ((k / nb / 8) % 7) as usize;
        let vs = format!("{}.{}.{}", v.0, v.1, v.2);
        let f = c09_file(&vs, spelling, placement, (k % 3) as usize, rng);
        if let Some(p) = prepare(f, acc) {
            acc.cov("programs:accepted");
            acc.cov("threshold-cross:files");
            count_forms(&p, &C09_DETS, acc);
            let extra = json!({"version": vs, "spelling": spelling, "placement": placement});
            judge(&p, &format!("tc-v{}-s{}-p{}", vs, spelling, placement), &C09_DETS, Layout::OneTokenPerLine, rng, acc, &extra);
        }
    });
    meta.exhaustive_subspaces.push("14 versions around the thresholds x 8 operator spellings x 7 pragma placements".into());
    let nr = ctx.tier.pick(5000u64, 600000u64);
    run_workload(ctx, &mut acc, "random-versions", nr, |k, rng, acc| {
        let comp = |rng: &Rng| -> u64 {
            match rng.below(5) {
                0 => rng.below(3) as u64,
                1 => rng.below(12) as u64,
                2 => rng.below(100) as u64,
                3 => 7 + rng.below(3) as u64,
                _ => rng.below(1_000_000_000) as u64,
            }
        };
        let v = (if rng.chance(3, 4) { 0 } else { comp(rng) }, comp(rng), comp(rng));
        let vs = format!("{}.{}.{}", v.0, v.1, v.2);
        let f = if k % 2 == 0 {
            c09_file(&vs, rng.below(8), rng.below(7), rng.below(3), rng)
        } else {
            let mut cfg = Cfg::normal();
            cfg.pragma = Some(format!("{}{}", rng.ps(&["", "^", "=", ">=", "~"]), vs));
            cfg.safemath = rng.chance(1, 2);
            let mut b = Builder::new(rng, cfg);
            let f = b.file();
            drop(b);
            f
        };
        if let Some(p) = prepare(f, acc) {
            acc.cov("programs:accepted");
            count_forms(&p, &C09_DETS, acc);
            let extra = json!({"version": vs});
            judge(&p, &format!("rv{}#{}", vs, k), &C09_DETS, Layout::OneTokenPerLine, rng, acc, &extra);
        }
    });
    // the same question through the directory walker: files of the SAME name on different sides of a threshold, in one
    // run (the verdict of each follows its own pragma, whatever was analysed before it under that name)
    {
        let thresholds = ["0.7.6", "0.8.0", "0.8.3", "0.8.4", "0.6.12", "0.8.17", "0.4.24", "1.0.0"];
        let n = ctx.tier.pick(64u64, 640u64);
        run_workload(ctx, &mut acc, "directory-namesakes-across-the-thresholds", n, |k, rng, acc| {
            use crate::mon::tree::{build, observed_findings_inprocess, Ent};
            let body = |v: &str| format!("pragma solidity {};\ncontract C {{\n    using SafeMath for uint256;\n    function f(uint256 a, uint256 b) public returns (uint256) {{\n        require(a > b, \"short\");\n        require(a > 1, \"a message that is definitely longer than thirty-two bytes\");\n        return a.add(b);\n    }}\n}}\n", v);
            let v1 = thresholds[(k as usize) % thresholds.len()];
            let v2 = thresholds[((k as usize) / thresholds.len()) % thresholds.len()];
            let v3 = *rng.pick(&thresholds);
            let file = |v: &str| Ent::File { name: "Same.sol".to_string(), bytes: body(v).into_bytes() };
            let mut ents = vec![file(v1), Ent::Dir { name: "lib".to_string(), kids: vec![file(v2), Ent::Dir { name: "x".to_string(), kids: vec![file(v3)] }] }];
            if rng.chance(1, 2) {
                ents.reverse(); // creation order decides the listing order on tmpfs
            }
            let root = crate::mon::c11::scratch_dir("c09d");
            build(&root, &ents);
            let pats: Vec<dets::Det> = C09_DETS.iter().map(|n| dets::ALL.iter().find(|(m, _)| m == n).unwrap().1).collect();
            let mut want: Vec<(String, Vec<i32>)> = vec![];
            for v in [v1, v2, v3] {
                let t = spec::parse_version(v).unwrap_or((0, 0, 0));
                if t < (0, 8, 0) {
                    want.push(("safe_math_pre_080".into(), vec![7]));
                } else {
                    want.push(("safe_math_post_080".into(), vec![7]));
                }
                if t >= (0, 8, 4) {
                    want.push(("string_errors".into(), vec![5, 6]));
                } else {
                    want.push(("short_revert_string".into(), vec![6]));
                }
            }
            want.sort();
            match observed_findings_inprocess(&root, &pats) {
                Ok(found) => {
                    let mut have: Vec<(String, Vec<i32>)> = found.into_iter().filter(|f| f.1 == "Same.sol").map(|f| (f.0, f.2)).collect();
                    have.sort();
                    acc.eval();
                    acc.cov("directory-namesakes:compared");
                    if v1 != v2 || v2 != v3 {
                        acc.nontrivial_h(crate::common::hash_str(&format!("c09d{}{}{}", v1, v2, v3)));
                    }
                    if have != want {
                        acc.violation("directory:namesakes-across-a-threshold", json!({"versions": {"Same.sol": v1, "lib/Same.sol": v2, "lib/x/Same.sol": v3}, "expected": want, "observed": have}));
                    }
                }
                Err((m, at)) => acc.violation("directory:analyze_dir-panicked", json!({"panic": m, "at": at})),
            }
            let _ = std::fs::remove_dir_all(&root);
        });
    }
    floors(ctx, &mut acc, &C09_DETS, ctx.tier.pick(200, 1000), ctx.tier.pick(200, 1000));
    meta.assumptions = vec![
        "files with zero or several pragma solidity directives, ranges, fewer than three components, concatenated/unicode/escaped literals, `using {f} for` and path-qualified SafeMath are DONT_CARE (DESIGN.md 8.5)".into(),
        "monotonicity in v follows from the per-version verdicts being checked against the tuple-order model at every enumerated version".into(),
    ];
    finish(ctx, acc, meta)
}
