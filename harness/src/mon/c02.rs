//! C02 — every reported line is the line on which the flagged construct begins.
use crate::common::*;
use crate::corpus;
use crate::dets::{self, ref_line};
use crate::gen::Cfg;
use crate::layout::{Layout, NAMED};
use crate::progsrc;
use serde_json::json;
use solstat::analyzer::utils;
use std::collections::BTreeSet;

fn conv_signature(text: &str, off: usize, got: i32, exp: i32) -> String {
    let after_has_lf = text.as_bytes()[off.min(text.len())..].contains(&b'\n');
    if !after_has_lf {
        if !text.contains('\n') {
            "conv:single-line".into()
        } else {
            "conv:last-line-unterminated".into()
        }
    } else if (got - exp).abs() == 1 {
        "conv:off-by-one".into()
    } else {
        "conv:other".into()
    }
}

fn check_conv(text: &str, acc: &mut Acc) {
    for (off, ch) in text.char_indices() {
        if ch.is_whitespace() {
            continue;
        }
        let exp = ref_line(text, off);
        let got = match guarded(|| utils::get_line_number(off, text) as i32) {
            Ok(v) => v,
            Err((m, l)) => {
                acc.violation("conv:panic", json!({"text": text, "offset": off, "panic": m, "at": l}));
                continue;
            }
        };
        acc.eval();
        if got != exp {
            acc.violation(conv_signature(text, off, got, exp), json!({"text": trunc(text, 400), "offset": off, "get_line_number": got, "expected_line": exp}));
        }
    }
}

/// monitor 2: lines reported by analyze_for_* == { ref_line(start of each location returned by the detector) }
pub fn check_plumbing(name: &str, layout_name: &str, text: &str, acc: &mut Acc) {
    let su = match solang_parser::parse(text, 0) {
        Ok((su, _)) => su,
        Err(_) => {
            acc.discards += 1;
            return;
        }
    };
    for (dname, det) in dets::ALL.iter() {
        let su2 = su.clone();
        let locs = match guarded(std::panic::AssertUnwindSafe(|| det.locs(su2))) {
            Ok(l) => l,
            Err(_) => {
                acc.cov("plumbing:detector-panicked(skipped, see C04)");
                continue;
            }
        };
        let lines = match guarded(|| det.lines(text, 0)) {
            Ok(l) => l,
            Err(_) => {
                acc.cov("plumbing:entry-panicked(skipped, see C04)");
                continue;
            }
        };
        acc.eval();
        let expected: BTreeSet<i32> = locs.iter().map(|l| ref_line(text, l.start())).collect();
        if !expected.is_empty() {
            acc.cov(&format!("plumbing:nonempty:{}", layout_name));
            acc.nontrivial_h(hash_str(text) ^ hash_str(dname));
        }
        if lines != expected {
            // classify
            let last_line = ref_line(text, text.len());
            let only_last = expected.symmetric_difference(&lines).all(|l| *l == 0 || *l == last_line);
            let sig = if only_last && !text.ends_with('\n') {
                "plumbing:last-line-unterminated".to_string()
            } else {
                let ends: BTreeSet<i32> = locs.iter().map(|l| ref_line(text, l.end())).collect();
                if lines == ends {
                    "plumbing:uses-end-offset".to_string()
                } else {
                    format!("plumbing:{}", dname)
                }
            };
            acc.violation(
                sig,
                json!({"program": name, "layout": layout_name, "detector": dname, "reported_lines": lines, "expected_lines": expected,
                       "locations": locs.iter().map(|l| (l.start(), l.end())).collect::<Vec<_>>(), "text": trunc(text, 3000)}),
            );
        }
    }
}

pub fn run(ctx: &Ctx) -> i32 {
    let mut acc = Acc::default();
    let mut meta = Meta::new(
        "monitor 1: get_line_number vs 1+#LF-before-offset on all texts of length <=8 over {a, LF, CR, é} and random texts, at every char boundary of a non-white-space character; \
         monitor 2: for every program x layout x detector, lines from analyze_for_* == lines of the start offsets of the detector function's own locations; \
         monitor 3: see C05-C09 (spec line = line of the construct's first token, checked in one-token-per-line and random layouts). \
         non-trivial = (program text, detector) with at least one location; distinct by text hash x detector",
    );
    // ---- monitor 1, exhaustive part
    let alphabet = ['a', '\n', '\r', 'é'];
    run_workload(ctx, &mut acc, "conv-exhaustive", 4u64.pow(4), |k, _rng, acc| {
        // k fixes the first four characters (or fewer for short texts); enumerate the rest
        let mut prefix = String::new();
        let mut kk = k;
        for _ in 0..4 {
            prefix.push(alphabet[(kk % 4) as usize]);
            kk /= 4;
        }
        if k == 0 {
            // texts of length 0..=3
            for l in 0..=3usize {
                for idx in 0..4usize.pow(l as u32) {
                    let mut t = String::new();
                    let mut ii = idx;
                    for _ in 0..l {
                        t.push(alphabet[ii % 4]);
                        ii /= 4;
                    }
                    check_conv(&t, acc);
                    acc.cov("conv:texts-len0-3");
                }
            }
        }
        // lengths 4..=8 with this prefix
        for extra in 0..=4usize {
            let n = 4usize.pow(extra as u32);
            for idx in 0..n {
                let mut t = prefix.clone();
                let mut ii = idx;
                for _ in 0..extra {
                    t.push(alphabet[ii % 4]);
                    ii /= 4;
                }
                check_conv(&t, acc);
                acc.cov("conv:texts-len4-8");
            }
        }
    });
    meta.exhaustive_subspaces.push("get_line_number on every text of length 0..=8 over {a, LF, CR, é} (87 381 texts) at every non-white-space char boundary".into());
    // ---- monitor 1, random part
    let n_rand = ctx.tier.pick(2_000u64, 50_000u64);
    run_workload(ctx, &mut acc, "conv-random", n_rand, |k, rng, acc| {
        let len = rng.range(1, 400);
        let mode = rng.below(5);
        let mut t = String::new();
        for _ in 0..len {
            let c = match (mode, rng.below(12)) {
                (0, 0) | (0, 1) => "\n",
                (1, 0) => "\r\n",
                (1, 1) => "\n\n",
                (2, _) => "é合",
                (3, 0) | (3, 1) | (3, 2) | (3, 3) | (3, 4) | (3, 5) => "\n",
                (4, 0) => "\r",
                (_, 2) => " ",
                (_, 3) => "é",
                (_, 4) => "\n",
                _ => "x",
            };
            t.push_str(c);
        }
        if rng.chance(1, 2) {
            t.push('\n');
        }
        // sample offsets rather than all, the regex recompilation per call is slow
        let offs: Vec<usize> = t.char_indices().filter(|(_, c)| !c.is_whitespace()).map(|(i, _)| i).collect();
        for _ in 0..offs.len().min(12) {
            let off = *rng.pick(&offs);
            let exp = ref_line(&t, off);
            let got = utils::get_line_number(off, &t) as i32;
            acc.eval();
            if got != exp {
                acc.violation(conv_signature(&t, off, got, exp), json!({"text": trunc(&t, 400), "offset": off, "get_line_number": got, "expected_line": exp}));
            }
        }
        acc.nontrivial_h(hash_str(&t));
        if k == 0 {
            acc.sample(json!({"monitor": "conv-random", "text": trunc(&t, 200)}));
        }
    });

    // ---- monitor 2: plumbing over programs x layouts
    let progs = corpus::load();
    run_workload(ctx, &mut acc, "plumbing-corpus", progs.len() as u64, |k, rng, acc| {
        let p = &progs[k as usize];
        check_plumbing(&p.name, "original", &p.text, acc);
        if let Some(tp) = progsrc::from_corpus(p, acc) {
            for l in NAMED.iter() {
                if let Some(laid) = progsrc::lay_checked(&tp, *l, rng, acc) {
                    check_plumbing(&tp.name, l.name(), &laid.text, acc);
                }
            }
            for _ in 0..3 {
                if let Some(m) = progsrc::mutate(&tp, rng) {
                    if let Some(laid) = progsrc::lay_checked(&m, Layout::Random, rng, acc) {
                        check_plumbing(&m.name, "random", &laid.text, acc);
                    }
                }
            }
        }
    });
    let n = ctx.tier.pick(250u64, 4000u64);
    run_workload(ctx, &mut acc, "plumbing-generated", n, |k, rng, acc| {
        let mut cfg = Cfg::normal();
        cfg.pragma = Some(rng.ps(&["0.8.17", "0.7.6", "0.8.3"]).to_string());
        if let Some(tp) = progsrc::generated(k, rng, cfg, acc) {
            let layouts: Vec<Layout> = if ctx.tier == Tier::Quick { vec![Layout::OneTokenPerLine, Layout::NoFinalNewline, Layout::Crlf, Layout::Random, Layout::RandomWithPrefix] } else { NAMED.to_vec() };
            for l in layouts {
                if let Some(laid) = progsrc::lay_checked(&tp, l, rng, acc) {
                    check_plumbing(&tp.name, l.name(), &laid.text, acc);
                    if k == 0 && l == Layout::Random {
                        acc.sample(json!({"monitor": "plumbing", "program": tp.name, "layout": l.name(), "text": trunc(&laid.text, 1200)}));
                    }
                }
            }
        }
    });

    // ---- tall and wide files: line numbers beyond 16 and 17 bits, offsets beyond 24 bits, very long lines
    let ntall = ctx.tier.pick(16u64, 48u64);
    run_workload(ctx, &mut acc, "tall-files", ntall, |k, rng, acc| {
        // (1 500 and 6 000 comment lines make files of about 80 kB and 320 kB: beyond 64 KiB and 256 KiB)
        let lines_before = [40_000usize, 66_000, 70_000, 131_100, 200_000, 300_000, 1_500, 6_000][(k % 8) as usize];
        let crlf = (k / 8) % 2 == 1 || k % 8 >= 6 && k % 2 == 1;
        let mut t = String::from("pragma solidity ^0.8.0;\n");
        let filler = match k % 3 {
            0 => "\n".to_string(),
            1 => "// é filler comment with code-like text: x++; a >= b\n".to_string(),
            _ => format!("{}\n", " ".repeat(rng.range(0, 200))),
        };
        for _ in 0..lines_before {
            t.push_str(&filler);
        }
        t.push_str("contract Tall {\n    uint256 x;\n    function f(uint256 a, uint256 b) public returns (uint256) {\n        require(a >= b && b != 0, \"a string that is quite a bit longer than thirty-two bytes\");\n        x = a / b * 2;\n        return x++;\n    }\n}\n");
        if k % 2 == 1 {
            // one very long line before the contract
            let long = format!("/* {} */\n", "long ".repeat(40_000));
            t = t.replacen("contract Tall", &format!("{}contract Tall", long), 1);
        }
        if crlf {
            t = t.replace('\n', "\r\n");
            acc.cov("tall-files:crlf");
        }
        acc.cov(&format!("tall-files:{}-lines", lines_before));
        check_plumbing(&format!("tall#{}", k), "tall", &t, acc);
    });

    // ---- many findings in one file (more than 512, more than 4096) behind multi-byte characters
    let nmany = ctx.tier.pick(4u64, 16u64);
    run_workload(ctx, &mut acc, "many-findings", nmany, |k, rng, acc| {
        let n = [600usize, 1500, 5000, 700][(k % 4) as usize];
        let nl = if k % 3 == 2 { "\r\n" } else { "\n" };
        let mut t = format!("pragma solidity ^0.8.0;{nl}// 合约 é 合约合约合约 😀😀 préambule{nl}contract Many {{{nl}    uint256 x;{nl}    uint256[] arr;{nl}    function f(uint256 a, uint256 b) public {{{nl}", nl = nl);
        for i in 0..n {
            match (i + rng.below(3)) % 4 {
                0 => t.push_str(&format!("        x++; /* é {} */{}", i, nl)),
                1 => t.push_str(&format!("        arr[0] = arr[0] + {}; // 合约{}", i % 7, nl)),
                2 => t.push_str(&format!("        require(a >= b && b != {}, \"é\");{}", i, nl)),
                _ => t.push_str(&format!("        x = a / {} * 2;{}", (i % 5) + 2, nl)),
            }
        }
        t.push_str(&format!("    }}{nl}}}{nl}", nl = nl));
        acc.cov(&format!("many-findings:{}-statements", n));
        check_plumbing(&format!("many#{}", k), "many-findings", &t, acc);
    });

    // ---- a byte order mark in front of a file: whether or not the analysis accepts such a file, the mark holds no line
    // feed, so lines reported for it are the lines reported without it
    let bom_progs: Vec<&corpus::Prog> = progs.iter().take(40).collect();
    run_workload(ctx, &mut acc, "byte-order-mark", bom_progs.len() as u64, |k, _rng, acc| {
        let p = bom_progs[k as usize];
        let with_bom = format!("{}{}", '\u{FEFF}', p.text);
        for (dname, det) in dets::ALL.iter() {
            let plain = match guarded(|| det.lines(&p.text, 0)) {
                Ok(l) => l,
                Err(_) => continue,
            };
            match guarded(|| det.lines(&with_bom, 0)) {
                Ok(l) => {
                    acc.eval();
                    acc.cov("byte-order-mark:file-accepted");
                    if l != plain {
                        acc.violation(format!("byte-order-mark:{}", dname), json!({"program": p.name, "detector": dname, "lines_without_the_mark": plain, "lines_with_the_mark": l}));
                    }
                }
                Err(_) => acc.cov("byte-order-mark:file-rejected-by-the-parser"),
            }
        }
    });

    // ---- monitor 3: which construct.  In the one-token-per-line layout a line names a token; every MUST construct of the
    // spec tables (DESIGN.md section 8) must be reported on the line of (one of) its designated first token(s).
    let nw = ctx.tier.pick(400u64, 6000u64);
    run_workload(ctx, &mut acc, "which-construct", nw, |k, rng, acc| {
        let mut cfg = Cfg::normal();
        cfg.pragma = Some(rng.ps(&["0.8.17", "0.7.6", "0.8.3"]).to_string());
        cfg.safemath = rng.chance(1, 2);
        let mut b = crate::gen::Builder::new(rng, cfg);
        let f = b.file();
        drop(b);
        if let Some(p) = crate::mon::specmon::prepare(f, acc) {
            let mut local = Acc::default();
            local.cur_workload = acc.cur_workload.clone();
            local.cur_k = acc.cur_k;
            let all: Vec<&'static str> = crate::spec::SPEC_DETECTORS.iter().copied().filter(|d| !d.starts_with("pack_")).collect();
            crate::mon::specmon::judge(&p, &format!("gen#{}", k), &all, Layout::OneTokenPerLine, rng, &mut local, &json!(null));
            acc.evals_n(local.evals);
            acc.cov_n("which-construct:judgements", local.evals);
            for v in local.viol {
                acc.viol.push(Viol { signature: format!("which:{}", v.signature), ..v });
            }
        }
    });

    if ctx.replay.is_none() {
        for l in ["no_final_newline", "crlf", "random", "one_token_per_line"] {
            if acc.cov_get(&format!("plumbing:nonempty:{}", l)) < 50 {
                acc.inconclusive(format!("coverage floor: fewer than 50 non-empty detector results observed in layout {}", l));
            }
        }
        let tot = acc.cov_get("programs:generated") + acc.cov_get("discard:generator-selfcheck");
        if acc.cov_get("discard:generator-selfcheck") * 20 > tot.max(1) {
            acc.inconclusive("generator self-check discards > 5%".to_string());
        }
    }
    meta.assumptions = vec![
        "a token can start only at a non-white-space character".into(),
        "the detector functions' returned locations are the flagged constructs (which construct is flagged is the subject of C05-C09)".into(),
    ];
    finish(ctx, acc, meta)
}
