//! C04 — analysis never aborts on a file the parser accepts.
//! Cases run in worker subprocesses (crash isolation) of two builds: `release` (wrapping
//! arithmetic) and `chk` (overflow checks + debug assertions).
use crate::common::*;
use crate::corpus;
use crate::dets;
use crate::gen::Cfg;
use crate::layout::Layout;
use crate::progsrc;
use serde_json::{json, Value};
use std::io::{BufRead, BufReader, Write};
use std::process::{Command, Stdio};

fn nest(open: &str, close: &str, depth: usize, core: &str) -> String {
    format!("{}{}{}", open.repeat(depth), core, close.repeat(depth))
}

pub fn catalogue() -> Vec<(String, String)> {
    let mut v: Vec<(String, String)> = vec![];
    let body = "contract C { uint256 public total; address owner; function f(uint256 a, uint256[] memory xs) public returns (uint256) { require(a > 0 && a < 10, \"a string that is quite a bit longer than thirty-two bytes\"); for (uint256 i = 0; i < xs.length; i++) { total = total + xs[i] * 2; } return a / 4; } }";
    let mut add = |n: &str, t: String| v.push((n.to_string(), t));
    add("no-pragma", body.to_string());
    add("empty-file", String::new());
    add("comment-only", "// nothing here\n/* at all */\n".to_string());
    add("only-experimental-pragma", format!("pragma experimental ABIEncoderV2;\n{}", body));
    add("only-abicoder-pragma", format!("pragma abicoder v2;\n{}", body));
    add("solidity-pragma-not-first", format!("pragma abicoder v2;\npragma experimental SMTChecker;\npragma solidity 0.8.17;\n{}", body));
    add("pragma-after-contract", format!("{}\npragma solidity 0.8.17;\n", body));
    for ver in ["0.8", "8", "^0", "0.8.4294967296", "0.8.123456789012", "99999999999.0.0", ">=0.4.22 <0.9.0", "*", "0.8.x", "^0.8.0 || ^0.7.0", "v0.8.1", "0.8.1-alpha", " 0.8.17 ", "0.08.017", "赤",
        "0.8.4 /* pinned", "/* x", "0.8.4 // see the notes", "*/ 0.8.0", "0.8.4 /*/", "/**/ ^0.8.0 /* a */ /* b", "0.7.6 /* a */ /* ^0.8.0", "// only a comment", "/* */", "0.8.4 */ /*", "^", "||", ">=", "0.8.4 /* é 合约",
    ] {
        add(&format!("pragma-version:{}", ver), format!("pragma solidity {};\n{}", ver, body));
    }
    add("free-functions", "pragma solidity 0.8.17;\nfunction free(uint256 a) pure returns (uint256) { return a * 2; }\nfunction _other(uint256 b) pure returns (uint256) { return b / 8; }\ncontract C { constructor() {} }".to_string());
    add("free-function-no-pragma", "function free(uint256 a) pure returns (uint256) { return a + 1; }".to_string());
    add("file-level-things", "pragma solidity 0.8.17;\nuint256 constant X = 2 ** 64;\nstruct P { uint8 a; uint256 b; uint8 c; }\nerror E(uint256 a);\nenum K { A, B }\nevent Ev(uint256 a);\ntype T is uint128;\nusing {free} for uint256 global;\nfunction free(uint256 a) pure returns (uint256) { return a; }".to_string());
    for callee in ["address", "require", "keccak256", "selfdestruct", "suicide", "payable", "assert", "revert2", "uint256", "abi.encodePacked", "x.add", "x.transfer", "type"] {
        add(
            &format!("no-arg-call:{}", callee),
            format!("pragma solidity 0.8.17;\ncontract C {{ using SafeMath for uint256; uint256 x; function f(address a) public {{ {0}(); if (a == {0}()) {{ x = 1; }} if ({0}() != a) {{ x = 2; }} }} }}", callee),
        );
    }
    add("address-cast-shapes", "pragma solidity 0.8.17;\ncontract C { function f(address a) public { if (a == address()) {} if (address(1, 2) != a) {} if (a == address(a)) {} if (a == address(\"x\")) {} if (a == payable(0)) {} } }".to_string());
    for lit in [
        "0", "4294967295", "4294967296", "4294967297", "18446744073709551616", "57896044618658097711785492504343953926634992332820282019728792003956564819968",
        "115792089237316195423570985008687907853269984665640564039457584007913129639935", "1e77", "1e-3", "2e3", "1_000", "1_024", "0x10", "0x0", "1.5", ".5", "1e18", "0e0",
        "10000000000000000000000000000000000000000000000000000000000000000000000000000", "00", "2 ether", "1 wei", "1 days",
    ] {
        add(
            &format!("literal:{}", lit),
            format!("pragma solidity 0.8.17;\ncontract C {{ uint256[] arr; function f(uint256 a) public returns (uint256) {{ arr[{0}] = arr[{0}] + 1; uint256 b = a * {0}; uint256 c = {0} * a; uint256 d = a / {0}; if (a == address({0})) {{}} return b + c + d + {0}; }} }}", lit),
        );
    }
    // numeric literals of every size class: 10^(n-1) and 10^n - 1 for every digit count up to 78, and every power of two up to 2^256 (+-1 around type boundaries)
    {
        let lit_prog = |lit: &str| format!("pragma solidity 0.8.17;\ncontract C {{ uint256[] arr; function f(uint256 a) public returns (uint256) {{ arr[{0}] = arr[{0}] + 1; uint256 b = a * {0}; uint256 c = {0} * a; uint256 d = a / {0}; uint256 e = {0} / a; a *= {0}; return b + c + d + e + {0}; }} }}", lit);
        for n in 1..=78usize {
            add(&format!("literal-digits:{}:10^(n-1)", n), lit_prog(&format!("1{}", "0".repeat(n - 1))));
            add(&format!("literal-digits:{}:9s", n), lit_prog(&"9".repeat(n)));
        }
        // powers of two as decimal strings (schoolbook doubling)
        let mut d: Vec<u8> = vec![1];
        for k in 0..=256u32 {
            let s: String = d.iter().rev().map(|x| (b'0' + x) as char).collect();
            add(&format!("literal-pow2:2^{}", k), lit_prog(&s));
            if [8u32, 16, 31, 32, 63, 64, 127, 128, 255, 256].contains(&k) {
                // 2^k - 1 : subtract one from the decimal string
                let mut m = d.clone();
                let mut i = 0;
                loop {
                    if m[i] > 0 {
                        m[i] -= 1;
                        break;
                    } else {
                        m[i] = 9;
                        i += 1;
                    }
                }
                while m.len() > 1 && *m.last().unwrap() == 0 {
                    m.pop();
                }
                let s1: String = m.iter().rev().map(|x| (b'0' + x) as char).collect();
                add(&format!("literal-pow2:2^{}-1", k), lit_prog(&s1));
                // with digit separators and exponent variants
                add(&format!("literal-pow2:2^{}:separators", k), lit_prog(&s.chars().enumerate().map(|(i, c)| if i > 0 && i % 3 == 0 { format!("_{}", c) } else { c.to_string() }).collect::<String>()));
                add(&format!("literal-pow2:2^{}:e0", k), lit_prog(&format!("{}e0", s)));
            }
            let mut carry = 0;
            for x in d.iter_mut() {
                let v = *x * 2 + carry;
                *x = v % 10;
                carry = v / 10;
            }
            if carry > 0 {
                d.push(carry);
            }
        }
    }
    // any number of definitions of every kind
    for n in [255usize, 256, 257, 300, 1000] {
        let mut t = String::from("pragma solidity 0.8.17;\ncontract ManyVars {\n");
        for i in 0..n {
            t.push_str(&format!("  uint256 v{};\n", i));
        }
        t.push_str("  function f() public { v0 = 1; }\n}\n");
        add(&format!("state-variables:{}:uint256", n), t);
        let mut t = String::from("pragma solidity 0.8.17;\ncontract ManyMixed {\n");
        for i in 0..n {
            t.push_str(&format!("  {} w{};\n", ["uint8", "uint256", "address", "bool", "bytes32", "string", "uint128"][i % 7], i));
        }
        t.push_str("}\n");
        add(&format!("state-variables:{}:mixed", n), t);
        let mut t = String::from("pragma solidity 0.8.17;\nstruct Big {\n");
        for i in 0..n {
            t.push_str(&format!("  uint256 f{};\n", i));
        }
        t.push_str("}\ncontract Holder { struct Inner {\n");
        for i in 0..n {
            t.push_str(&format!("  {} g{};\n", ["uint8", "uint256", "bytes32"][i % 3], i));
        }
        t.push_str("} }\n");
        add(&format!("struct-fields:{}", n), t);
        let mut t = String::from("pragma solidity 0.8.17;\ncontract ManyThings {\n");
        for i in 0..n {
            t.push_str(&format!("  event E{0}(uint256 a); error R{0}(); struct S{0} {{ uint8 a; uint256 b; uint8 c; }} modifier m{0}() {{ _; }}\n", i));
        }
        t.push_str("  constructor() {}\n}\n");
        add(&format!("members-of-every-kind:{}", n), t);
        let mut t = String::from("pragma solidity 0.8.17;\ncontract ManyParams { function f(");
        for i in 0..n {
            if i > 0 {
                t.push_str(", ");
            }
            t.push_str(&format!("uint256[] memory p{}", i));
        }
        t.push_str(") public { ");
        for i in 0..n.min(300) {
            t.push_str(&format!("p{}[0] = 1; ", i));
        }
        t.push_str("} }\n");
        add(&format!("parameters:{}", n), t);
        let mut t = String::from("pragma solidity 0.8.17;\ncontract ManyStmts { uint256 x; function f(uint256 a) public { ");
        for i in 0..n {
            t.push_str(&format!("x = x + {} * 2; ++x; require(a > {} && a != 0, \"r\"); ", i, i));
        }
        t.push_str("} }\n");
        add(&format!("statements:{}", n), t);
    }
    for n in [0usize, 1, 2, 127, 128, 254, 255, 256, 257, 300, 511, 512, 1000] {
        let mut t = String::from("pragma solidity 0.8.17;\ncontract Many {\n");
        for i in 0..n {
            t.push_str(&format!("  function f{}() public {{}}\n", i));
        }
        t.push_str("  constructor() {}\n}\n");
        add(&format!("functions-before-constructor:{}", n), t.clone());
        let mut t2 = String::from("pragma solidity 0.8.17;\n");
        for i in 0..n {
            t2.push_str(&format!("contract K{} {{ function g() external {{}} }}\n", i));
        }
        t2.push_str("contract Last { constructor() {} function h() external {} }\n");
        add(&format!("contracts-before-constructor:{}", n), t2);
    }
    add("several-constructors", "pragma solidity 0.8.17;\ncontract A { function a() public {} constructor() {} constructor(uint256 x) {} function b() public {} constructor(uint8 y) {} }".to_string());
    add("old-style-unnamed-function", "pragma solidity ^0.4.0;\ncontract A { function() external payable {} function () public {} function A() public {} }".to_string());
    add("modifier-shapes", "pragma solidity 0.8.17;\ncontract A { modifier m { _; } modifier n() { _; } modifier o(uint256 a) virtual; function f() public m n o(1) {} }".to_string());
    add("empty-contracts", "pragma solidity 0.8.17;\ncontract A {}\ninterface I {}\nlibrary L {}\nabstract contract B {}\ncontract D is A, B {}\n;;\n".to_string());
    add("interface-and-abstract", "pragma solidity 0.8.17;\ninterface I { function f(bytes memory a) external; function g() external payable; }\nabstract contract B { function h(string memory s) public virtual; function _i() internal virtual; constructor() {} }".to_string());
    add("unicode", "pragma solidity 0.8.17;\ncontract C { string s = unicode\"héllo 合约\"; string t = \"é\"; function f() public returns (string memory) { require(bytes(s).length > 0, unicode\"ошибка: строка слишком длинная для тридцати двух\"); return s; } }".to_string());
    add("unicode-identifiers", "pragma solidity 0.8.0;\ncontract Überweisung { uint256 private größe; address internal _empfänger; uint256 public _zähler; function überweisen(uint256 betrag) internal returns (uint256) { require(betrag > 0 && betrag <= größe, unicode\"éééééééééééééééé\"); größe = größe - betrag * 2; return größe; } function _ändern(uint256 neu) external { größe = neu; } function 合约(uint256[] memory 数组) public { for (uint256 i = 0; i < 数组.length; i++) { größe++; } } constructor() { _empfänger = msg.sender; } }".to_string());
    add("unicode-identifiers-free", "pragma solidity 0.7.6;\nfunction ñandú(uint256 ä) pure returns (uint256) { return ä * 2; }\ncontract Ü { function _é() public {} function è() private {} }".to_string());
    add("strings", "pragma solidity 0.8.17;\ncontract C { function f(bool a) public { require(a, \"\"); require(a, \"a\" \"b\"); require(a, hex\"00\"); require(\"s\", a); require(a, 'single quoted string that is longer than thirty-two bytes'); require(); revert(\"x\"); } }".to_string());
    add("hex-and-address-literals", "pragma solidity 0.8.17;\ncontract C { bytes b = hex\"00ff\" hex\"11\"; address a = address\"5GBWmgdFAMqm8ZgAHGobqDqX6tjLxJhv53ygjNtaaAn3sjeZ\"; function f() public { b = hex\"\"; } }".to_string());
    add("selfdestruct-shapes", "pragma solidity 0.8.17;\ncontract C { address o; function a() public { selfdestruct(); } function b() external { suicide(o, o); } function c() public { selfdestruct(payable(msg.sender)); } function d() public onlyX { selfdestruct(payable(o)); } function e() public { require(); selfdestruct(payable(o)); } function f() { selfdestruct(payable(o)); } }\nfunction g() { selfdestruct(payable(address(0))); }".to_string());
    add("using-shapes", "pragma solidity 0.8.17;\nusing SafeMath for uint256;\ncontract C { using SafeMath for *; using {a, b.c} for uint8; using L.SafeMath for uint256; uint256 x; function f() public { x = x.add(1).sub(2).mul(3).div(4); x.add; } }".to_string());
    add("tuple-and-destructuring", "pragma solidity 0.8.17;\ncontract C { uint256 a; uint256 b; function f() public { (a, b) = (b, a); (, b) = (1, 2); (uint256 x, ) = (1, 2); (a) = 1; () ; delete a; (a, b) = g(); } function g() public returns (uint256, uint256) { return (1, 2); } }".to_string());
    add("memory-params", "pragma solidity 0.8.17;\ncontract C { function f(uint256[] memory, bytes memory b, string memory) public { b[0] = 0x01; } function g(uint256[] memory a) external { a[0] += 1; a[1][2] = 3; a.x = 4; delete a; } constructor(uint256[] memory a) {} function h(S memory s) public; }".to_string());
    add("array-index-shapes", "pragma solidity 0.8.17;\ncontract C { uint256[] a; mapping(uint256 => uint256[]) m; function f(uint256 i) public { a[0] = a[0] + 1; a[i] = a[i] * 2; a[0] = 1 + a[0]; a[0x0] = a[0x0] + 1; m[1][2] = m[1][2] + 1; a[1e1] = a[1e1] - 1; a[0] = a[1] + 1; this.a[0]; a[] ; a[0:1]; } }".to_string());
    add("for-shapes", "pragma solidity 0.8.17;\ncontract C { uint256[] a; function f() public { for (;;) { break; } for (uint256 i; ; ) { continue; } for (; a.length > 0; ) {} for (uint256 i = 0; i < a.length; ) { unchecked { ++i; } } for (uint256 j = a.length; j > 0; --j) ; } }".to_string());
    add("try-shapes", "pragma solidity 0.8.17;\ncontract C { function f(C c) public { try c.g() {} catch {} try c.g() returns (uint256 v) { v++; } catch Error(string memory r) { revert(r); } catch Panic(uint256 code) { code--; } catch (bytes memory) {} try new C() returns (C d) { d; } catch {} } function g() public returns (uint256) {} }".to_string());
    add("assembly", "pragma solidity 0.8.17;\ncontract C { function f(uint256 x) public returns (uint256 r) { assembly { r := add(x, 1) } assembly \"evmasm\" { let y := mul(r, 2) if lt(y, 10) { r := y } } assembly (\"memory-safe\") { switch r case 0 { r := 1 } default { leave } function q(a) -> b { b := a } } } }".to_string());
    add("keywords-as-identifiers", "pragma solidity 0.8.17;\ncontract C { uint256 error; uint256 switch; function revert(uint256 leave) public { error = leave; switch = case; } uint256 case; uint256 default; }".to_string());
    add("state-variable-shapes", "pragma solidity 0.8.17;\ncontract C { uint256 constant A = 1; uint256 immutable B; uint256 public constant override C1 = 2; function() external internal f; mapping(uint256 => mapping(address => bool)) m; uint256[][3] arr; S s; uint256 private _p; uint256 internal q; uint256 public _r; bytes32 constant private H = keccak256(\"x\"); constructor() { B = 1; } }".to_string());
    for d in [8usize, 32, 48, 64] {
        add(&format!("deep-parens:{}", d), format!("pragma solidity 0.8.17;\ncontract C {{ function f(uint256 a) public returns (uint256) {{ return {}; }} }}", nest("(", ")", d, "a * 2 + 1")));
        add(&format!("deep-blocks:{}", d), format!("pragma solidity 0.8.17;\ncontract C {{ uint256 x; function f(uint256 a) public {{ {} }} }}", nest("{ ", " }", d, "x = a;")));
        add(&format!("deep-unchecked:{}", d), format!("pragma solidity 0.8.17;\ncontract C {{ uint256 x; function f(uint256 a) public {{ {} }} }}", nest("unchecked { ", " }", d, "++x; x++;")));
        add(&format!("deep-ternary:{}", d), format!("pragma solidity 0.8.17;\ncontract C {{ function f(uint256 a) public returns (uint256) {{ return {}1{}; }} }}", "a >= 1 ? 2 : ".repeat(d), ""));
        add(&format!("deep-index:{}", d), format!("pragma solidity 0.8.17;\ncontract C {{ uint256[] x; function f(uint256 a) public returns (uint256) {{ return {}a{}; }} }}", "x[".repeat(d), "]".repeat(d)));
        add(&format!("deep-ifs:{}", d), format!("pragma solidity 0.8.17;\ncontract C {{ uint256 x; function f(uint256 a) public {{ {} x = 1; }} }}", "if (a == 1) ".repeat(d)));
        add(&format!("deep-prefix:{}", d), format!("pragma solidity 0.8.17;\ncontract C {{ function f(uint256 a) public returns (uint256) {{ return {}a; }} }}", "- ".repeat(d)));
        add(&format!("deep-power:{}", d), format!("pragma solidity 0.8.17;\ncontract C {{ function f(uint256 a) public returns (uint256) {{ return {}a; }} }}", "a ** ".repeat(d)));
        add(&format!("deep-calls:{}", d), format!("pragma solidity 0.8.17;\ncontract C {{ function f(uint256 a) public returns (uint256) {{ return {}a{}; }} }}", "f(".repeat(d), ")".repeat(d)));
    }
    // omitted slots: every place that holds a parameter list x every way of leaving a slot empty (the parser decides which it accepts)
    for (si, slots) in ["(uint256, )", "(, uint256)", "(uint256 a, , uint256 b)", "(,)", "(, )", "(uint256 a,)", "(, , uint256 c)", "(uint256[] memory a, )"].iter().enumerate() {
        let places: [(&str, String); 12] = [
            ("function-parameters", format!("contract C {{ function f{} public {{ }} }}", slots)),
            ("function-returns", format!("contract C {{ function f() public returns {} {{ }} }}", slots)),
            ("function-type-parameters", format!("contract C {{ function {} external cb; }}", slots)),
            ("function-type-returns", format!("contract C {{ function (uint256) external returns {} cb; }}", slots)),
            ("local-function-type-returns", format!("contract C {{ function f() public {{ function (uint256) internal returns {} g; g; }} }}", slots)),
            ("local-function-type-parameters", format!("contract C {{ function f() public {{ function {} internal g; g; }} }}", slots)),
            ("try-returns", format!("contract C {{ function f(C c) public {{ try c.g() returns {} {{ }} catch {{ }} }} function g() external returns (uint256, uint256) {{ }} }}", slots)),
            ("event-error-parameters", format!("contract C {{ event E{}; error R{}; }}", slots, slots)),
            ("modifier-parameters", format!("contract C {{ modifier m{} {{ _; }} }}", slots)),
            ("constructor-parameters", format!("contract C {{ constructor{} {{ }} }}", slots)),
            ("declaration-tuple", format!("contract C {{ function f() public {{ {} = g(); }} function g() internal returns (uint256, uint256) {{ }} }}", slots)),
            ("parameter-of-function-type", format!("contract C {{ function f(function (uint256) external returns {} cb) public {{ }} mapping(uint256 => function {} external) m; }}", slots, slots)),
        ];
        for (place, text) in places.iter() {
            add(&format!("omitted-slots:{}:{}", place, si), format!("pragma solidity 0.8.17;\n{}\n", text));
        }
    }
    // wide nodes: long lists with one entry of another kind in the middle (array literals, arguments, tuples, named arguments, inheritance lists)
    for n in [8usize, 33, 65, 100, 257, 300] {
        let mid = n / 2;
        let items = |lit: &str, odd: &str| (0..n).map(|i| if i == mid { odd.to_string() } else { lit.replace("{}", &i.to_string()) }).collect::<Vec<_>>().join(", ");
        add(&format!("wide:array-literal:{}", n), format!("pragma solidity 0.8.17;\ncontract C {{ uint256 x; function f(uint256 a, uint256 b) public returns (uint256) {{ uint256[{}] memory t = [{}]; return t[0] * 2; }} }}\n", n, items("{}", "a + b * 4")));
        add(&format!("wide:array-literal-of-strings:{}", n), format!("pragma solidity 0.8.17;\ncontract C {{ function f(address a) public {{ string[{}] memory t = [{}]; t; }} }}\n", n, items("\"s{}\"", "a == address(0) ? \"z\" : \"n\"")));
        add(&format!("wide:arguments:{}", n), format!("pragma solidity 0.8.17;\ncontract C {{ uint256[] arr; function f(uint256 a) public {{ g({}); }} }}\n", items("{}", "arr[0] = arr[0] + a")));
        add(&format!("wide:tuple:{}", n), format!("pragma solidity 0.8.17;\ncontract C {{ function f(uint256 a) public {{ ({}); }} }}\n", items("{}", "a >= 2")));
        add(&format!("wide:named-arguments:{}", n), format!("pragma solidity 0.8.17;\ncontract C {{ function f(uint256 a) public {{ g({{{}}}); }} }}\n", (0..n).map(|i| if i == mid { format!("k{}: a / 8", i) } else { format!("k{}: {}", i, i) }).collect::<Vec<_>>().join(", ")));
        add(&format!("wide:bases:{}", n), format!("pragma solidity 0.8.17;\ncontract C is {} {{ }}\n", (0..n).map(|i| if i == mid { format!("B{}(1 * 2)", i) } else { format!("B{}", i) }).collect::<Vec<_>>().join(", ")));
        add(&format!("wide:enum-and-struct:{}", n), format!("pragma solidity 0.8.17;\ncontract C {{ enum E {{ {} }} struct S {{ {} }} }}\n", (0..n).map(|i| format!("V{}", i)).collect::<Vec<_>>().join(", "), (0..n).map(|i| if i == mid { format!("uint256[2 * 4] f{};", i) } else { format!("uint8 f{};", i) }).collect::<Vec<_>>().join(" ")));
    }
    v
}

fn panic_signature(det: &str, msg: &str, at: &str) -> String {
    let file = at.rsplit('/').next().unwrap_or(at);
    let file = file.split(':').next().unwrap_or(file);
    let head: String = msg.chars().take(48).map(|c| if c.is_ascii_digit() { '#' } else if c.is_ascii_alphanumeric() || c == '#' { c } else { '-' }).collect();
    let head = head.trim_matches('-').to_string();
    let mut h2 = String::new();
    let mut last_dash = false;
    for c in head.chars() {
        if c == '-' {
            if !last_dash {
                h2.push(c);
            }
            last_dash = true;
        } else {
            h2.push(c);
            last_dash = false;
        }
    }
    format!("panic:{}@{}:{}", det, file, h2)
}

/// Run all detectors on one text; returns list of (detector, msg, at)
fn run_all(text: &str) -> Vec<(&'static str, String, String)> {
    let mut out = vec![];
    for (dname, det) in dets::ALL.iter() {
        if let Err((m, at)) = guarded(|| det.lines(text, 0)) {
            out.push((*dname, m, at));
        }
    }
    out
}

fn case_text(workload: &str, k: u64, rng: &Rng, acc: &mut Acc, corpus: &[corpus::Prog], cat: &[(String, String)], forms: &[String]) -> Option<(String, String)> {
    match workload {
        "degenerate-forms" => match crate::degen::file(k, rng, forms) {
            Some((n, t)) => {
                acc.cov(if n.contains("systematic") { "degenerate:systematic-files" } else { "degenerate:nested-files" });
                acc.cov_n("degenerate:statements", t.matches(";\n").count() as u64);
                Some((n, t))
            }
            None => {
                acc.cov("degenerate:file-without-any-parseable-statement");
                None
            }
        },
        "catalogue" => {
            let (n, t) = cat.get(k as usize)?;
            if dets::parses(t) {
                acc.cov("catalogue:accepted");
                Some((format!("catalogue:{}", n), t.clone()))
            } else {
                acc.cov("catalogue:rejected-by-parser");
                None
            }
        }
        "hostile-generated" => {
            let tp = progsrc::generated(k, rng, Cfg::hostile(), acc)?;
            let l = *rng.pick(&[Layout::Pretty, Layout::SingleLine, Layout::NoFinalNewline, Layout::Random]);
            let laid = progsrc::lay_checked(&tp, l, rng, acc)?;
            Some((tp.name, laid.text))
        }
        "corpus-mutants" => {
            let p = rng.pick(corpus);
            let tp = progsrc::from_corpus(p, acc)?;
            let mut cur = tp;
            for _ in 0..rng.range(0, 3) {
                if let Some(m) = progsrc::mutate(&cur, rng) {
                    cur = m;
                }
            }
            // hostile edits: drop pragmas / prepend unrelated pragma
            let mut toks = cur.toks.clone();
            match rng.below(4) {
                0 => {
                    // delete every pragma directive
                    let mut out = vec![];
                    let mut skip = false;
                    for t in toks.iter() {
                        if t.s == "pragma" {
                            skip = true;
                        }
                        if !skip {
                            out.push(t.clone());
                        }
                        if skip && t.s == ";" {
                            skip = false;
                        }
                    }
                    toks = out;
                }
                1 => {
                    let mut pre = vec![];
                    for s in ["pragma", "experimental", "ABIEncoderV2", ";"] {
                        pre.push(crate::gast::Tok { s: s.to_string(), ws_only_before: s != "pragma", glue_ok: s == ";" });
                    }
                    pre.extend(toks);
                    toks = pre;
                }
                _ => {}
            }
            let tp2 = progsrc::TokProg { name: format!("{}~hostile", cur.name), toks, rendered: None, file: None };
            let laid = progsrc::lay_checked(&tp2, Layout::Pretty, rng, acc)?;
            Some((tp2.name, laid.text))
        }
        _ => None,
    }
}

/// user + system CPU time of this process in clock ticks (100 per second on Linux), from /proc/self/stat
fn cpu_ticks() -> u64 {
    let s = std::fs::read_to_string("/proc/self/stat").unwrap_or_default();
    // fields after the ")" that closes the command name: state is field 3; utime and stime are fields 14 and 15
    let rest = s.rsplit(')').next().unwrap_or("");
    let f: Vec<&str> = rest.split_whitespace().collect();
    let u: u64 = f.get(11).and_then(|x| x.parse().ok()).unwrap_or(0);
    let st: u64 = f.get(12).and_then(|x| x.parse().ok()).unwrap_or(0);
    u + st
}

/// worker: `vmon worker c04 <seed> <workload> <lo> <hi>`; prints one line per case
pub fn worker(args: &[String]) -> i32 {
    let seed: u64 = args[0].parse().unwrap();
    let workload = args[1].clone();
    let lo: u64 = args[2].parse().unwrap();
    let hi: u64 = args[3].parse().unwrap();
    let corpus = corpus::load();
    let cat = catalogue();
    let forms = if workload == "degenerate-forms" { crate::degen::depth1() } else { vec![] };
    let stdout = std::io::stdout();
    // CPU budget per case: a case normally needs milliseconds of CPU; 60 CPU-seconds (process time, not wall clock)
    // without a result is reported as a missing result for that case
    let case_start_ticks = std::sync::Arc::new(std::sync::atomic::AtomicU64::new(cpu_ticks()));
    let cur_case = std::sync::Arc::new(std::sync::atomic::AtomicU64::new(lo));
    {
        let (cs, cc) = (case_start_ticks.clone(), cur_case.clone());
        std::thread::spawn(move || loop {
            std::thread::sleep(std::time::Duration::from_millis(500));
            let used = cpu_ticks().saturating_sub(cs.load(std::sync::atomic::Ordering::Relaxed));
            if used > 60 * 100 {
                // (the pipe may be closed already: a failed write must not keep this thread from ending the process)
                let mut o = std::io::stdout();
                let _ = writeln!(o, "X {}", cc.load(std::sync::atomic::Ordering::Relaxed));
                let _ = o.flush();
                std::process::exit(97);
            }
        });
    }
    for k in lo..hi {
        case_start_ticks.store(cpu_ticks(), std::sync::atomic::Ordering::Relaxed);
        cur_case.store(k, std::sync::atomic::Ordering::Relaxed);
        {
            let mut o = stdout.lock();
            let _ = writeln!(o, "S {}", k);
            let _ = o.flush();
        }
        let mut acc = Acc::default();
        let rng = Rng::new(seed, &format!("C04/{}", workload), k);
        let res = match case_text(&workload, k, &rng, &mut acc, &corpus, &cat, &forms) {
            Some((name, text)) => {
                let panics = run_all(&text);
                json!({"k": k, "name": name, "evals": 30, "bytes": text.len(),
                       "panics": panics.iter().map(|(d, m, a)| json!({"det": d, "msg": m, "at": a})).collect::<Vec<_>>(),
                       "text": if panics.is_empty() && k % 97 != 0 { Value::Null } else { json!(trunc(&text, 6000)) },
                       "cov": acc.cov, "discards": acc.discards})
            }
            None => json!({"k": k, "name": Value::Null, "evals": 0, "panics": [], "cov": acc.cov, "discards": acc.discards}),
        };
        let mut o = stdout.lock();
        let _ = writeln!(o, "R {}", res);
        let _ = o.flush();
    }
    0
}

/// number of cases that exceeded the CPU budget so far; after a handful the remaining cases add no information
static BUDGET_KILLS: std::sync::atomic::AtomicU64 = std::sync::atomic::AtomicU64::new(0);
/// set once six cases have exceeded the budget: the verdict is in, every worker still running is ended and the
/// remaining shards and phases are skipped (each would only burn another 60 CPU-seconds per shard)
static CUT_SHORT: std::sync::atomic::AtomicBool = std::sync::atomic::AtomicBool::new(false);

fn run_shard(exe: &str, build: &str, seed: u64, workload: &str, lo: u64, hi: u64, acc: &mut Acc) {
    let mut cur = lo;
    while cur < hi {
        if BUDGET_KILLS.load(std::sync::atomic::Ordering::Relaxed) >= 6 || CUT_SHORT.load(std::sync::atomic::Ordering::Relaxed) {
            acc.cov("cut-short-after-repeated-cpu-budget-violations");
            return;
        }
        let mut child = match Command::new(exe)
            .args(["worker", "c04", &seed.to_string(), workload, &cur.to_string(), &hi.to_string()])
            .stdout(Stdio::piped())
            .stderr(Stdio::null())
            .spawn()
        {
            Ok(c) => c,
            Err(e) => {
                acc.inconclusive(format!("cannot spawn worker {}: {}", exe, e));
                return;
            }
        };
        let out = child.stdout.take().unwrap();
        let mut started: Option<u64> = None;
        let mut finished: Option<u64> = None;
        let mut cpu_killed: Option<u64> = None;
        // silence watchdog: a case normally takes milliseconds; kill the worker after 90 s without any output line
        let last_line = std::sync::Arc::new(std::sync::atomic::AtomicU64::new(0));
        let done = std::sync::Arc::new(std::sync::atomic::AtomicBool::new(false));
        let hung = std::sync::Arc::new(std::sync::atomic::AtomicBool::new(false));
        let pid = child.id();
        {
            let (last_line, done, hung) = (last_line.clone(), done.clone(), hung.clone());
            std::thread::spawn(move || {
                let mut seen = 0u64;
                let mut idle = 0u64;
                while !done.load(std::sync::atomic::Ordering::Relaxed) {
                    std::thread::sleep(std::time::Duration::from_secs(1));
                    let now = last_line.load(std::sync::atomic::Ordering::Relaxed);
                    if now == seen {
                        idle += 1;
                    } else {
                        seen = now;
                        idle = 0;
                    }
                    if idle >= 90 {
                        hung.store(true, std::sync::atomic::Ordering::Relaxed);
                        let _ = Command::new("kill").args(["-9", &pid.to_string()]).status();
                        break;
                    }
                }
            });
        }
        for line in BufReader::new(out).lines() {
            last_line.fetch_add(1, std::sync::atomic::Ordering::Relaxed);
            let line = match line {
                Ok(l) => l,
                Err(_) => break,
            };
            if let Some(r) = line.strip_prefix("X ") {
                // the worker gave up on this case after 60 CPU-seconds
                if let Ok(kx) = r.trim().parse::<u64>() {
                    acc.cur_k = kx;
                    acc.violation(
                        format!("no-result-within-cpu-budget:{}", build),
                        json!({"build": build, "workload": workload, "k": kx, "note": "all 30 entry points normally return within milliseconds of CPU time on this input; after 60 seconds of CPU time (process time, not wall clock) no result had been returned: bounded-progress reading of 'terminates normally'"}),
                    );
                    cpu_killed = Some(kx);
                    if BUDGET_KILLS.fetch_add(1, std::sync::atomic::Ordering::Relaxed) + 1 >= 6 && !CUT_SHORT.swap(true, std::sync::atomic::Ordering::Relaxed) {
                        crate::common::kill_descendants();
                    }
                }
            } else if let Some(r) = line.strip_prefix("S ") {
                started = r.trim().parse().ok();
            } else if let Some(r) = line.strip_prefix("R ") {
                if let Ok(j) = serde_json::from_str::<Value>(r) {
                    let k = j["k"].as_u64().unwrap_or(0);
                    finished = Some(k);
                    acc.cur_k = k;
                    acc.evals_n(j["evals"].as_u64().unwrap_or(0));
                    acc.discards += j["discards"].as_u64().unwrap_or(0);
                    if let Some(c) = j["cov"].as_object() {
                        for (key, v) in c {
                            // counted once per build; keep the release numbers as the coverage tables
                            if build == "release" {
                                acc.cov_n(key, v.as_u64().unwrap_or(0));
                            }
                        }
                    }
                    if j["evals"].as_u64().unwrap_or(0) > 0 {
                        acc.cov(&format!("cases:{}:{}", build, workload));
                        if let Some(n) = j["name"].as_str() {
                            acc.nontrivial_h(hash_str(n) ^ hash_str(workload));
                            if let Some(c) = n.strip_prefix("catalogue:") {
                                acc.cov(&format!("catalogue-item:{}", c.split(':').next().unwrap_or(c)));
                            }
                        }
                    }
                    if let Some(ps) = j["panics"].as_array() {
                        for p in ps {
                            let det = p["det"].as_str().unwrap_or("?");
                            let sig = panic_signature(det, p["msg"].as_str().unwrap_or(""), p["at"].as_str().unwrap_or(""));
                            acc.violation(sig, json!({"build": build, "program": j["name"], "detector": det, "panic": p["msg"], "at": p["at"], "text": j["text"]}));
                        }
                    }
                    if k % 97 == 0 && build == "release" && j["text"].is_string() && acc.samples.len() < 3 {
                        acc.sample(json!({"program": j["name"], "text": j["text"]}));
                    }
                }
            }
        }
        let status = child.wait();
        done.store(true, std::sync::atomic::Ordering::Relaxed);
        if CUT_SHORT.load(std::sync::atomic::Ordering::Relaxed) && cpu_killed.is_none() {
            // ended by the cut-short above, not by anything the case did
            acc.cov("cut-short-after-repeated-cpu-budget-violations");
            return;
        }
        let ok = status.as_ref().map(|s| s.success()).unwrap_or(false);
        if ok {
            return;
        }
        if let Some(kx) = cpu_killed {
            cur = kx + 1;
            continue;
        }
        if hung.load(std::sync::atomic::Ordering::Relaxed) {
            // wall clock is not a verdict: report the case, continue after it
            if let Some(s) = started {
                acc.inconclusive(format!("case {} of workload {} ({} build) produced no result within 90 s and was killed (possible non-termination); replay it with --replay", s, workload, build));
                acc.cov("watchdog:killed-cases");
                cur = s + 1;
                continue;
            }
        }
        // the worker died: the case that was started and not finished is the culprit
        match started {
            Some(s) if finished != Some(s) => {
                acc.cur_k = s;
                acc.violation(
                    format!("abort:{}:{}", build, workload),
                    json!({"build": build, "workload": workload, "k": s, "exit": format!("{:?}", status), "note": "worker process died while analysing this case (stack overflow, abort or kill)"}),
                );
                cur = s + 1;
            }
            _ => {
                acc.inconclusive(format!("worker {} exited abnormally outside a case: {:?}", exe, status));
                return;
            }
        }
    }
}

pub fn run(ctx: &Ctx) -> i32 {
    let mut acc = Acc::default();
    let mut meta = Meta::new(
        "parser-accepted programs: a hostile catalogue (missing/odd pragmas, free functions, file-level items, no-argument calls of well-known names, literals up to 78 digits and with exponents, \
         0..1000 functions/contracts before a constructor, old-style functions, modifier shapes, nesting depth up to 64 of parentheses/blocks/unchecked/ternaries/indexes/ifs/prefix operators/powers/calls), \
         degenerate forms (every call of 40 well-known names with no argument / each of 74 odd literals and names as its argument, every binary operator over those, prefix/postfix/index/slice/member/ternary forms, all systematically, then nested once or twice more at random; in 12 statement contexts under 7 pragmas), hostile generated programs, corpus mutants with pragmas removed. Each case runs all 30 analyze_for_* entry points under catch_unwind inside worker subprocesses of the release build and of a build with overflow checks. \
         evaluation = one (program, detector, build) call; non-trivial = parser-accepted program; distinct by (workload, program name)",
    );
    // (the running image itself, even if the file on disk has been rebuilt meanwhile)
    let release = "/proc/self/exe".to_string();
    let chk = std::env::var("VMON_CHK_BIN").unwrap_or_else(|_| format!("{}/target/chk/vmon", VERIF_DIR));
    let have_chk = std::path::Path::new(&chk).exists();
    if !have_chk && ctx.replay.is_none() {
        acc.inconclusive(format!("overflow-checked build of the harness not found at {} (run ./check C04 or ./setup.sh)", chk));
    }
    let ncat = catalogue().len() as u64;
    let nsys = crate::degen::systematic_files();
    let plans: Vec<(&str, u64)> = vec![("catalogue", ncat), ("degenerate-forms", nsys + ctx.tier.pick(150, 30000)), ("hostile-generated", ctx.tier.pick(1200, 120000)), ("corpus-mutants", ctx.tier.pick(400, 40000))];
    for (workload, n) in plans {
        let shard = ((n + 31) / 32).max(1);
        let nshards = (n + shard - 1) / shard;
        for (build, exe) in [("release", release.as_str()), ("chk", chk.as_str())] {
            if build == "chk" && !have_chk {
                continue;
            }
            if let Some((w, k)) = &ctx.replay {
                if w == workload || w.ends_with(workload) {
                    run_shard(exe, build, ctx.seed, workload, *k, *k + 1, &mut acc);
                }
                continue;
            }
            let wl_name = format!("{}:{}", build, workload);
            // each unit of the pool is one shard = one subprocess
            let accs = std::sync::Mutex::new(Vec::<Acc>::new());
            let next = std::sync::atomic::AtomicU64::new(0);
            std::thread::scope(|s| {
                for _ in 0..ctx.threads.min(nshards as usize).max(1) {
                    s.spawn(|| {
                        let mut a = Acc::default();
                        a.cur_workload = workload.to_string();
                        loop {
                            let i = next.fetch_add(1, std::sync::atomic::Ordering::Relaxed);
                            if i >= nshards {
                                break;
                            }
                            let lo = i * shard;
                            let hi = ((i + 1) * shard).min(n);
                            run_shard(exe, build, ctx.seed, workload, lo, hi, &mut a);
                        }
                        accs.lock().unwrap().push(a);
                    });
                }
            });
            for a in accs.into_inner().unwrap() {
                acc.merge(a);
            }
            let _ = wl_name;
        }
    }
    // ---- the binary itself (release, and an unoptimised debug build: deep recursion costs far more stack there)
    // over directories of parser-accepted catalogue programs: exit status 0 and a report, else the culprit file is isolated
    if CUT_SHORT.load(std::sync::atomic::Ordering::Relaxed) {
        acc.cov("binary-workload-skipped-after-cut-short");
    } else if ctx.replay.is_none() || ctx.replay.as_ref().map(|r| r.0 == "binary").unwrap_or(false) {
        let tdir = std::env::var("VMON_TARGET_DIR").unwrap_or_else(|_| "target".to_string());
        let tdir = if tdir.starts_with('/') { tdir } else { format!("{}/{}", VERIF_DIR, tdir) };
        let bins = [("release", format!("{}/release/solstat", tdir)), ("debug", format!("{}/debug/solstat", tdir))];
        let cat: Vec<(String, String)> = catalogue().into_iter().filter(|(n, t)| dets::parses(t) && !n.contains(":1000") && !n.starts_with("literal-digits")).collect();
        for (bname, bin) in bins.iter() {
            if !std::path::Path::new(bin).exists() {
                acc.inconclusive(format!("{} build of the solstat binary not found at {} (run ./check C04)", bname, bin));
                continue;
            }
            let chunk = 40usize;
            let nchunks = (cat.len() + chunk - 1) / chunk;
            let accs = std::sync::Mutex::new(Vec::<Acc>::new());
            let next = std::sync::atomic::AtomicUsize::new(0);
            std::thread::scope(|s| {
                for _ in 0..ctx.threads.min(nchunks).max(1) {
                    s.spawn(|| {
                        let mut a = Acc::default();
                        a.cur_workload = "binary".to_string();
                        loop {
                            let ci = next.fetch_add(1, std::sync::atomic::Ordering::Relaxed);
                            if ci >= nchunks {
                                break;
                            }
                            let files = &cat[ci * chunk..((ci + 1) * chunk).min(cat.len())];
                            let dir = crate::mon::c11::scratch_dir("c04bin");
                            std::fs::create_dir_all(format!("{}/contracts", dir)).unwrap();
                            for (j, (_, t)) in files.iter().enumerate() {
                                std::fs::write(format!("{}/contracts/F{}.sol", dir, j), t).unwrap();
                            }
                            let run = |d: &str| -> Option<(Option<i32>, String)> {
                                let mut child = Command::new(bin).current_dir(d).stdin(Stdio::null()).stdout(Stdio::null()).stderr(Stdio::piped()).spawn().ok()?;
                                // generous silence limit; a kill here is reported as inconclusive
                                let start = std::time::Instant::now();
                                loop {
                                    match child.try_wait() {
                                        Ok(Some(st)) => {
                                            let mut e = String::new();
                                            if let Some(mut se) = child.stderr.take() {
                                                use std::io::Read;
                                                let _ = se.read_to_string(&mut e);
                                            }
                                            return Some((st.code(), e));
                                        }
                                        Ok(None) => {
                                            if start.elapsed().as_secs() > 300 {
                                                let _ = child.kill();
                                                return None;
                                            }
                                            std::thread::sleep(std::time::Duration::from_millis(20));
                                        }
                                        Err(_) => return None,
                                    }
                                }
                            };
                            a.cur_k = ci as u64;
                            match run(&dir) {
                                Some((Some(0), _)) if std::path::Path::new(&format!("{}/solstat_report.md", dir)).exists() => {
                                    a.evals_n(files.len() as u64);
                                    a.cov_n(&format!("binary:{}:files-analysed", bname), files.len() as u64);
                                }
                                Some((code, err)) => {
                                    // isolate: one file per run
                                    let mut found = false;
                                    for (j, (n, t)) in files.iter().enumerate() {
                                        let d1 = crate::mon::c11::scratch_dir("c04bin1");
                                        std::fs::create_dir_all(format!("{}/contracts", d1)).unwrap();
                                        std::fs::write(format!("{}/contracts/F{}.sol", d1, j), t).unwrap();
                                        if let Some((c1, e1)) = run(&d1) {
                                            if c1 != Some(0) {
                                                found = true;
                                                let kind = if e1.contains("overflowed its stack") || c1.is_none() { "stack-overflow-or-signal" } else { "panic" };
                                                a.violation(format!("binary-abort:{}:{}", bname, kind), json!({"build": bname, "catalogue_item": n, "exit": c1, "stderr": trunc(&e1, 500), "text": trunc(t, 3000)}));
                                            }
                                        }
                                        let _ = std::fs::remove_dir_all(&d1);
                                        if found {
                                            break;
                                        }
                                    }
                                    if !found {
                                        a.violation(format!("binary-abort:{}:only-in-a-directory-of-files", bname), json!({"build": bname, "exit": code, "stderr": trunc(&err, 500), "files": files.iter().map(|f| f.0.clone()).collect::<Vec<_>>()}));
                                    }
                                }
                                None => a.inconclusive(format!("the {} binary did not finish within 300 s on a directory of {} catalogue files", bname, files.len())),
                            }
                            let _ = std::fs::remove_dir_all(&dir);
                        }
                        accs.lock().unwrap().push(a);
                    });
                }
            });
            for a in accs.into_inner().unwrap() {
                acc.merge(a);
            }
        }
    }
    acc.viol.sort_by(|a, b| (a.workload.as_str(), a.k).cmp(&(b.workload.as_str(), b.k)));
    if ctx.replay.is_none() {
        if acc.cov_get("catalogue:accepted") < 500 {
            acc.inconclusive(format!("coverage floor: only {} catalogue programs were accepted by the parser", acc.cov_get("catalogue:accepted")));
        }
        meta.extra.insert("catalogue_size".into(), json!(ncat));
    }
    meta.assumptions = vec![
        "a watchdog is not used as a verdict; a worker that dies identifies the case it had started, which is then reported as abort:<build>".into(),
        "nesting depth of generated/catalogue inputs <= 64".into(),
    ];
    finish(ctx, acc, meta)
}
