//! C10 — packing suggestions are sound w.r.t. the storage-slot model.
use crate::common::*;
use crate::dets::Det;
use serde_json::json;
use solang_parser::pt;
use solstat::analyzer::utils;

// ---------------------------------------------------------------- models

/// Solidity's layout rule on absolute bit addresses: an item that would straddle a 256-bit
/// boundary starts at the next boundary; slots used = ceil(end / 256).
pub fn model_slots(seq: &[u16]) -> u32 {
    let mut p: u64 = 0;
    for &s in seq {
        let s = s as u64;
        if (p % 256) + s > 256 {
            p = (p / 256 + 1) * 256;
        }
        p += s;
    }
    ((p + 255) / 256) as u32
}

/// Minimal number of 256-bit bins for the multiset (exact, subset DP; n <= 14).
pub fn opt_slots(seq: &[u16]) -> u32 {
    let n = seq.len();
    if n == 0 {
        return 0;
    }
    assert!(n <= 14);
    let full = 1usize << n;
    let mut sum = vec![0u32; full];
    for m in 1..full {
        let low = m.trailing_zeros() as usize;
        sum[m] = sum[m & (m - 1)] + seq[low] as u32;
    }
    // best[m] = (bins, load of last bin) lexicographically minimal
    let mut best = vec![(u32::MAX, u32::MAX); full];
    best[0] = (1, 0);
    for m in 0..full {
        let (b, l) = best[m];
        if b == u32::MAX {
            continue;
        }
        for i in 0..n {
            if m & (1 << i) != 0 {
                continue;
            }
            let s = seq[i] as u32;
            let cand = if l + s <= 256 { (b, l + s) } else { (b + 1, s) };
            let t = m | (1 << i);
            if cand < best[t] {
                best[t] = cand;
            }
        }
    }
    let _ = sum;
    best[full - 1].0
}

fn size_class(seq: &[u16]) -> &'static str {
    if seq.is_empty() {
        return "empty";
    }
    // does some prefix fill a slot exactly?
    let mut p = 0u32;
    for &s in seq {
        if p + s as u32 == 256 {
            return "boundary-256";
        }
        if p + s as u32 > 256 {
            p = s as u32;
        } else {
            p += s as u32;
        }
    }
    "other"
}

// ---------------------------------------------------------------- type spellings

/// (spelling, expected size in bits)
pub fn type_table() -> Vec<(String, u16)> {
    let mut v: Vec<(String, u16)> = vec![
        ("bool".into(), 8),
        ("address".into(), 160),
        ("address payable".into(), 160),
        ("uint".into(), 256),
        ("int".into(), 256),
        ("string".into(), 256),
        ("bytes".into(), 256),
        ("byte".into(), 8),
    ];
    for k in 1..=32u16 {
        v.push((format!("uint{}", k * 8), k * 8));
        v.push((format!("int{}", k * 8), k * 8));
        v.push((format!("bytes{}", k), k * 8));
    }
    for other in [
        "mapping(address => uint256)",
        "mapping(uint8 => mapping(bool => bytes1))",
        "uint8[]",
        "uint8[3]",
        "bool[][2]",
        "MyStruct",
        "Lib.Thing",
        "function (uint8) external returns (bool)",
        "function () internal",
        "address[]",
        "bytes1[4]",
    ] {
        v.push((other.to_string(), 256));
    }
    v
}

fn types_of_size(bits: u16, in_struct: bool) -> Vec<String> {
    let mut v = vec![format!("uint{}", bits), format!("int{}", bits), format!("bytes{}", bits / 8)];
    match bits {
        8 => v.push("bool".into()),
        160 => {
            v.push("address".into());
            v.push("address payable".into());
        }
        256 => {
            for t in ["uint", "int", "string", "bytes", "mapping(address => uint8)", "uint8[]", "bool[2]", "Other"] {
                v.push(t.into());
            }
            let _ = in_struct;
        }
        _ => {}
    }
    v
}

// ---------------------------------------------------------------- monitors

fn check_slots(seq: &[u16], acc: &mut Acc) {
    let got = utils::storage_slots_used(seq.to_vec());
    let exp = model_slots(seq);
    acc.eval();
    if got != exp {
        acc.violation(format!("slots:{}", size_class(seq)), json!({"sequence": seq, "storage_slots_used": got, "model": exp}));
    }
}

fn parse_type(spelling: &str) -> Option<pt::Expression> {
    let text = format!("contract C {{ {} x; }}", spelling);
    let (su, _) = solang_parser::parse(&text, 0).ok()?;
    for p in su.0 {
        if let pt::SourceUnitPart::ContractDefinition(c) = p {
            for part in c.parts {
                if let pt::ContractPart::VariableDefinition(v) = part {
                    return Some(v.ty);
                }
            }
        }
    }
    None
}

/// Build one file holding `seqs.len()` structs (or contracts) and check the detector on each.
fn check_detector_file(seqs: &[Vec<u16>], as_contract: bool, nested: bool, rng: &Rng, acc: &mut Acc) {
    let mut text = String::from("pragma solidity 0.8.17;\n");
    let mut starts: Vec<usize> = vec![];
    if !as_contract && nested {
        text.push_str("contract Holder {\n");
    }
    for (i, seq) in seqs.iter().enumerate() {
        if as_contract {
            let kw = *rng.pick(&["contract", "abstract contract", "library", "contract"]);
            starts.push(text.len());
            // now and then the contract names earlier contracts of the file as its bases (the packing verdict is
            // about the contract's own members)
            let bases = if kw != "library" && i > 0 && rng.chance(1, 3) {
                let mut b = format!(" is K{}", rng.below(i));
                if i > 1 && rng.chance(1, 3) {
                    b.push_str(&format!(", K{}", rng.below(i)));
                }
                b
            } else {
                String::new()
            };
            if !bases.is_empty() {
                acc.cov("contract-with-bases-in-the-same-file");
            }
            text.push_str(&format!("{} K{}{} {{\n", kw, i, bases));
        } else {
            starts.push(text.len());
            text.push_str(&format!("struct S{} {{\n", i));
        }
        for (j, &bits) in seq.iter().enumerate() {
            let tys = types_of_size(bits, !as_contract);
            let ty = rng.pick(&tys);
            // member names are arbitrary identifiers; some follow conventions (`__gap`, `_reserved`) that mean nothing to the layout
            let nm = match rng.below(12) {
                0 => format!("__gap{}_{}", i, j),
                1 => format!("__gap_{}_{}", i, j),
                2 => format!("_reserved{}_{}", i, j),
                3 => format!("gap{}_{}", i, j),
                _ => format!("m{}_{}", i, j),
            };
            text.push_str(&format!("  {} {};\n", ty, nm));
        }
        text.push_str("}\n");
    }
    if !as_contract && nested {
        text.push_str("}\n");
    }
    // self-check of the generator: the parser must see the same number of items at the same offsets
    let parsed = match solang_parser::parse(&text, 0) {
        Ok(p) => p.0,
        Err(_) => {
            acc.discards += 1;
            acc.inconclusive(format!("c10 generator produced an unparseable file: {}", trunc(&text, 200)));
            return;
        }
    };
    let mut seen: Vec<usize> = vec![];
    for p in &parsed.0 {
        match p {
            pt::SourceUnitPart::StructDefinition(s) if !as_contract => seen.push(s.loc.start()),
            pt::SourceUnitPart::ContractDefinition(c) => {
                if as_contract {
                    seen.push(c.loc.start());
                } else {
                    for part in &c.parts {
                        if let pt::ContractPart::StructDefinition(s) = part {
                            seen.push(s.loc.start());
                        }
                    }
                }
            }
            _ => {}
        }
    }
    if seen != starts {
        acc.discards += 1;
        acc.inconclusive("c10 generator offsets disagree with parser locations".to_string());
        return;
    }
    let det = if as_contract { Det::Opt(solstat::analyzer::optimizations::Optimization::PackStorageVariables) } else { Det::Opt(solstat::analyzer::optimizations::Optimization::PackStructVariables) };
    let dname = if as_contract { "pack_storage" } else { "pack_struct" };
    let locs = match guarded(std::panic::AssertUnwindSafe(|| det.locs(parsed.clone()))) {
        Ok(l) => l,
        Err((m, l)) => {
            acc.violation(format!("{}:panic", dname), json!({"panic": m, "at": l, "file": trunc(&text, 400)}));
            return;
        }
    };
    let reported: std::collections::HashSet<usize> = locs.iter().map(|l| l.start()).collect();
    for r in &reported {
        if !starts.contains(r) {
            acc.violation(format!("{}:foreign-location", dname), json!({"offset": r, "file": trunc(&text, 400)}));
        }
    }
    for (i, seq) in seqs.iter().enumerate() {
        acc.eval();
        let decl = model_slots(seq);
        let opt = opt_slots(seq);
        let mut asc = seq.clone();
        asc.sort();
        let mut desc = asc.clone();
        desc.reverse();
        let is_rep = reported.contains(&starts[i]);
        let both_sorts_save = model_slots(&asc) < decl && model_slots(&desc) < decl;
        let kind = if decl == opt {
            "optimal"
        } else if both_sorts_save {
            "both-sorts-save"
        } else {
            "dont-care"
        };
        acc.cov(&format!("{}:{}:{}", dname, kind, if is_rep { "reported" } else { "silent" }));
        if kind != "optimal" || seq.len() >= 2 {
            acc.nontrivial_h(hash_str(&format!("{}{:?}", dname, seq)));
        }
        if is_rep && decl == opt {
            acc.violation(
                format!("{}:unsound", dname),
                json!({"sizes": seq, "declared_slots": decl, "optimal_slots": opt, "reported": true}),
            );
        }
        if !is_rep && both_sorts_save {
            acc.violation(
                format!("{}:missed", dname),
                json!({"sizes": seq, "declared_slots": decl, "asc_slots": model_slots(&asc), "desc_slots": model_slots(&desc), "reported": false}),
            );
        }
        if i == 0 {
            acc.sample(json!({"detector": dname, "sizes": seq, "declared_slots": decl, "optimal_slots": opt, "reported": is_rep}));
        }
    }
}

/// like check_detector_file, for member lists too long for the exact bin-packing oracle: a lower bound on the optimum
/// (ceil(total bits / 256)) decides "already optimal", the two sort directions decide "must be reported".
fn check_detector_file_long(seqs: &[Vec<u16>], as_contract: bool, rng: &Rng, acc: &mut Acc) {
    let mut text = String::from("pragma solidity 0.8.17;\n");
    let mut starts: Vec<usize> = vec![];
    for (i, seq) in seqs.iter().enumerate() {
        starts.push(text.len());
        text.push_str(&if as_contract { format!("contract L{} {{\n", i) } else { format!("struct L{} {{\n", i) });
        for (j, &bits) in seq.iter().enumerate() {
            let tys = types_of_size(bits, !as_contract);
            text.push_str(&format!("  {} q{}_{};\n", rng.pick(&tys), i, j));
        }
        text.push_str("}\n");
    }
    let parsed = match solang_parser::parse(&text, 0) {
        Ok(p) => p.0,
        Err(_) => {
            acc.discards += 1;
            return;
        }
    };
    let det = if as_contract { Det::Opt(solstat::analyzer::optimizations::Optimization::PackStorageVariables) } else { Det::Opt(solstat::analyzer::optimizations::Optimization::PackStructVariables) };
    let dname = if as_contract { "pack_storage" } else { "pack_struct" };
    let locs = match guarded(std::panic::AssertUnwindSafe(|| det.locs(parsed.clone()))) {
        Ok(l) => l,
        Err((m, l)) => {
            acc.violation(format!("{}:panic", dname), json!({"panic": m, "at": l, "members": seqs[0].len()}));
            return;
        }
    };
    let reported: std::collections::HashSet<usize> = locs.iter().map(|l| l.start()).collect();
    for (i, seq) in seqs.iter().enumerate() {
        acc.eval();
        let decl = model_slots(seq);
        let total: u64 = seq.iter().map(|x| *x as u64).sum();
        let lower = ((total + 255) / 256) as u32;
        let mut asc = seq.clone();
        asc.sort();
        let mut desc = asc.clone();
        desc.reverse();
        let is_rep = reported.contains(&starts[i]);
        acc.nontrivial_h(hash_str(&format!("long{}{:?}", dname, seq)));
        if is_rep && decl == lower {
            acc.violation(format!("{}:unsound", dname), json!({"members": seq.len(), "total_bits": total, "declared_slots": decl, "lower_bound_on_any_order": lower, "reported": true}));
        }
        if !is_rep && model_slots(&asc) < decl && model_slots(&desc) < decl {
            acc.violation(format!("{}:missed", dname), json!({"members": seq.len(), "total_bits": total, "declared_slots": decl, "asc_slots": model_slots(&asc), "desc_slots": model_slots(&desc), "tail_sizes": seq.iter().filter(|x| **x != 256).collect::<Vec<_>>(), "reported": false}));
        }
    }
}

fn nth_seq(mut idx: u64, len: usize) -> Vec<u16> {
    let mut v = vec![0u16; len];
    for i in (0..len).rev() {
        v[i] = ((idx % 32) as u16 + 1) * 8;
        idx /= 32;
    }
    v
}

pub fn run(ctx: &Ctx) -> i32 {
    let mut acc = Acc::default();
    let mut meta = Meta::new(
        "size sequences over the 32 byte-granular sizes {8..256}: exhaustive up to the stated length, random beyond; \
         a detector case is non-trivial when the sequence has >= 2 members or is not already optimal; distinct = distinct (detector, sequence)",
    );

    // 1. slot counter: exhaustive length 0..=5, split into 32*32 chunks by the two leading sizes
    run_workload(ctx, &mut acc, "slots-exhaustive", 1 + 32 + 1024, |k, _rng, acc| {
        if k == 0 {
            check_slots(&[], acc);
            acc.cov("slots:len0");
        } else if k <= 32 {
            let a = (k as u16) * 8;
            check_slots(&[a], acc);
            acc.cov("slots:len1");
        } else {
            let kk = k - 33;
            let a = ((kk / 32) as u16 + 1) * 8;
            let b = ((kk % 32) as u16 + 1) * 8;
            check_slots(&[a, b], acc);
            acc.cov("slots:len2");
            let mut seq = [a, b, 0, 0, 0];
            for c in 1..=32u16 {
                seq[2] = c * 8;
                check_slots(&seq[..3], acc);
                for d in 1..=32u16 {
                    seq[3] = d * 8;
                    check_slots(&seq[..4], acc);
                    for e in 1..=32u16 {
                        seq[4] = e * 8;
                        check_slots(&seq[..5], acc);
                    }
                }
            }
            acc.cov_n("slots:len3", 32);
            acc.cov_n("slots:len4", 1024);
            acc.cov_n("slots:len5", 32768);
        }
    });
    meta.exhaustive_subspaces.push("storage_slots_used on all sequences of length 0..=5 over 32 sizes (34 636 833 sequences)".into());

    // 1b. random longer sequences
    let n_rand = ctx.tier.pick(1_000u64, 50_000u64);
    run_workload(ctx, &mut acc, "slots-random", n_rand, |_k, rng, acc| {
        for _ in 0..1000 {
            let len = rng.range(6, 40);
            let mode = rng.below(4);
            let seq: Vec<u16> = (0..len)
                .map(|_| match mode {
                    0 => (rng.range(1, 32) as u16) * 8,
                    1 => *rng.pick(&[8u16, 8, 16, 32, 64, 128, 160, 256, 248, 96]),
                    2 => *rng.pick(&[128u16, 128, 256, 120, 136, 8]),
                    _ => (rng.range(1, 4) as u16) * 8 * (*rng.pick(&[1u16, 2, 4, 8])),
                })
                .collect();
            check_slots(&seq, acc);
            acc.nontrivial_h(hash_str(&format!("{:?}", seq)));
        }
        acc.cov_n("slots:len6-40", 1000);
    });

    // 1c. very long sequences (hundreds of members): running totals must not be kept in a narrow integer
    let n_long = ctx.tier.pick(400u64, 8_000u64);
    run_workload(ctx, &mut acc, "slots-long", n_long, |_k, rng, acc| {
        let len = rng.range(200, 700);
        let mode = rng.below(3);
        let seq: Vec<u16> = (0..len)
            .map(|_| match mode {
                0 => 256,
                1 => (rng.range(1, 32) as u16) * 8,
                _ => *rng.pick(&[256u16, 256, 256, 8, 128, 248]),
            })
            .collect();
        check_slots(&seq, acc);
        acc.nontrivial_h(hash_str(&format!("{:?}", seq)));
        acc.cov("slots:len200-700");
    });

    // 2. size table
    run_workload(ctx, &mut acc, "size-table", 1, |_k, _rng, acc| {
        for (sp, exp) in type_table() {
            match parse_type(&sp) {
                None => {
                    acc.discards += 1;
                    acc.cov("size:unparseable-spelling");
                }
                Some(e) => {
                    let got = utils::get_type_size(e);
                    acc.eval();
                    acc.cov("size:types-checked");
                    acc.nontrivial_h(hash_str(&format!("type {}", sp)));
                    if got != exp {
                        acc.violation(format!("size:{}", sp.split(|c: char| !c.is_ascii_alphabetic()).next().unwrap_or("?")), json!({"type": sp, "get_type_size": got, "expected_bits": exp}));
                    }
                }
            }
        }
    });
    meta.exhaustive_subspaces.push("get_type_size on every elementary type keyword plus 11 non-elementary representatives".into());

    // 3. detectors: exhaustive small lengths, packed 1000 per file
    let per_file = 1000u64;
    let (max_len_struct, max_len_contract) = ctx.tier.pick((3usize, 3usize), (5usize, 4usize));
    for (as_contract, max_len) in [(false, max_len_struct), (true, max_len_contract)] {
        for len in 0..=max_len {
            let total = 32u64.pow(len as u32);
            let files = (total + per_file - 1) / per_file;
            let name = format!("det-exhaustive-{}-len{}", if as_contract { "contract" } else { "struct" }, len);
            run_workload(ctx, &mut acc, &name, files, |k, rng, acc| {
                let lo = k * per_file;
                let hi = (lo + per_file).min(total);
                let seqs: Vec<Vec<u16>> = (lo..hi).map(|i| nth_seq(i, len)).collect();
                check_detector_file(&seqs, as_contract, k % 2 == 1, rng, acc);
            });
        }
        meta.exhaustive_subspaces.push(format!(
            "{} on all member-size sequences of length 0..={}",
            if as_contract { "pack_storage_variables" } else { "pack_struct_variables" },
            max_len
        ));
    }
    // 3b. random longer sequences through the detectors
    let n_files = ctx.tier.pick(80u64, 4000u64);
    run_workload(ctx, &mut acc, "det-random", n_files, |k, rng, acc| {
        let as_contract = k % 2 == 0;
        let n = if as_contract { 100 } else { 500 };
        let mut seqs: Vec<Vec<u16>> = (0..n)
            .map(|_| {
                let len = if rng.chance(1, 4) { rng.range(0, 3) } else { rng.range(4, 12) };
                let mode = rng.below(3);
                (0..len)
                    .map(|_| match mode {
                        0 => (rng.range(1, 32) as u16) * 8,
                        1 => *rng.pick(&[8u16, 8, 16, 32, 64, 128, 160, 256, 248, 96]),
                        _ => *rng.pick(&[128u16, 128, 256, 120, 136, 8, 160]),
                    })
                    .collect()
            })
            .collect();
        // repeat some sequences (and permutations of them) later in the same file
        for _ in 0..n / 10 {
            let mut s = seqs[rng.below(seqs.len())].clone();
            if rng.chance(1, 2) {
                rng.shuffle(&mut s);
            }
            let at = rng.below(seqs.len() + 1);
            seqs.insert(at, s);
        }
        check_detector_file(&seqs, as_contract, rng.chance(1, 2), rng, acc);
    });

    // 3b'. shaped sequences: a wasteful front followed by the k largest sizes in ascending (or descending) order, 9..14 members in all;
    // and every arrangement class of one multiset side by side in one file
    let n_shaped = ctx.tier.pick(60u64, 3000u64);
    run_workload(ctx, &mut acc, "det-shaped", n_shaped, |k, rng, acc| {
        let as_contract = k % 2 == 0;
        let mut seqs: Vec<Vec<u16>> = vec![];
        for _ in 0..40 {
            let fronts: [&[u16]; 6] = [&[128, 200, 128], &[8, 256, 8], &[128, 256, 128], &[8, 248, 16, 240], &[160, 256, 96], &[64, 256, 64, 256, 128]];
            let mut s: Vec<u16> = rng.pick(&fronts).to_vec();
            let klen = rng.range(6, 14 - s.len()); // (the exact optimum is computed for at most 14 members)
            let mut tail: Vec<u16> = (0..klen).map(|_| *rng.pick(&[208u16, 216, 224, 232, 240, 248, 256, 256, 256])).collect();
            tail.sort();
            if rng.chance(1, 4) {
                tail.reverse();
            }
            s.extend(tail);
            seqs.push(s.clone());
            // the same multiset again, arranged otherwise: sorted both ways and shuffled
            if rng.chance(1, 2) {
                let mut asc = s.clone();
                asc.sort();
                let mut desc = asc.clone();
                desc.reverse();
                let mut sh = s.clone();
                rng.shuffle(&mut sh);
                let mut group = vec![asc, desc, sh];
                rng.shuffle(&mut group);
                seqs.extend(group);
            }
        }
        // size lists whose decimal spellings read alike when written one after the other: (16, 8, ..) and (168, ..)
        for (x, y, z) in [(16u16, 8u16, 168u16), (24, 8, 248), (8, 8, 88)] {
            let tails: [&[u16]; 4] = [&[256, 96], &[256, 8], &[128, 256, 128], &[96]];
            let tail = rng.pick(&tails).to_vec();
            let mut a = vec![x, y];
            a.extend(tail.iter());
            let mut b = vec![z];
            b.extend(tail.iter());
            let mut c = tail.clone();
            c.extend([x, y]);
            let mut d = tail.clone();
            d.push(z);
            let mut group = vec![a, b, c, d];
            rng.shuffle(&mut group);
            let at = rng.below(seqs.len() + 1);
            for g in group {
                seqs.insert(at.min(seqs.len()), g);
            }
        }
        check_detector_file(&seqs, as_contract, rng.chance(1, 2), rng, acc);
    });

    // 3c. very long member lists through the detectors (totals around and beyond 65 536 bits)
    let n_long_det = ctx.tier.pick(40u64, 600u64);
    run_workload(ctx, &mut acc, "det-long", n_long_det, |k, rng, acc| {
        let as_contract = k % 2 == 0;
        let seqs: Vec<Vec<u16>> = (0..4)
            .map(|j| {
                let full = rng.range(250, 262);
                let mut s: Vec<u16> = vec![256; full];
                let tail: &[u16] = match (k as usize + j) % 4 {
                    0 => &[128, 256, 128],
                    1 => &[8, 256, 8],
                    2 => &[128, 128],
                    _ => &[8, 248, 16, 240],
                };
                let at = rng.below(s.len() + 1);
                for (i, t) in tail.iter().enumerate() {
                    s.insert((at + i).min(s.len()), *t);
                }
                s
            })
            .collect();
        // the exact optimum is not computable by the subset DP at this size; judge with a lower bound and the sort-based clause
        check_detector_file_long(&seqs, as_contract, rng, acc);
        acc.cov("det:long-member-lists");
    });

    // coverage floors
    if ctx.replay.is_none() {
        for key in ["pack_struct:optimal:silent", "pack_struct:both-sorts-save:reported", "pack_storage:optimal:silent", "pack_storage:both-sorts-save:reported"] {
            if acc.cov_get(key) < 10 && acc.viol.is_empty() {
                acc.inconclusive(format!("coverage floor not met: {} observed {} times", key, acc.cov_get(key)));
            }
        }
    }
    meta.assumptions = vec![
        "solang-parser locations of struct/contract definitions start at the keyword (self-checked against generated offsets on every file)".into(),
        "contracts under test contain no constant/immutable members (the statement does not say how those count)".into(),
        "optimal slot count computed by exact subset DP bin packing (n <= 12)".into(),
    ];
    finish(ctx, acc, meta)
}
