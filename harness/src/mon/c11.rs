//! C11 — the report lists exactly the findings, each under its own pattern's section.
//! Also hosts the findings-map generator and the generate_report worker shared with C12/C13.
use crate::common::*;
use crate::report::{self, Entries};
use serde_json::{json, Value};
use std::collections::{BTreeMap, BTreeSet};
use std::io::{Read, Write};

pub const OPTS: [&str; 23] = [
    "address_balance", "address_zero", "assign_update_array_value", "bool_equals_bool", "cache_array_length", "constant_variables",
    "immutable_variables", "increment_decrement", "memory_to_calldata", "multiple_require", "optimal_comparison", "pack_storage_variables",
    "pack_struct_variables", "payable_function", "private_constant", "safe_math_pre_080", "safe_math_post_080", "shift_math",
    "short_revert_string", "solidity_keccak256", "solidity_math", "sstore", "string_errors",
];
pub const VULNS: [&str; 4] = ["floating_pragma", "unsafe_erc20_operation", "unprotected_selfdestruct", "divide_before_multiply"];
pub const QAS: [&str; 3] = ["constructor_order", "private_vars_leading_underscore", "private_func_leading_underscore"];

pub fn patterns_of(category: &str) -> &'static [&'static str] {
    match category {
        "optimizations" => &OPTS,
        "vulnerabilities" => &VULNS,
        _ => &QAS,
    }
}

const NAME_PARTS: [&str; 50] = [
    // path-like parts: findings maps are keyed by arbitrary strings, a report prints them as they are
    "src/", "src//", "/./", "/", "./", "../", "lib/sub/", "\\", "C:\\", "//", "/.", "~/",
    "{line}", "{file}", "{}", "{0}", "%s", "$1", "\\1", "\u{202E}", "\u{2066}", "\u{2069}", "\u{200B}", "\u{FEFF}",
    "a-name-part-of-sixty-characters-to-build-very-long-file-names",
    "a-name-part-of-one-hundred-and-twenty-characters-to-build-file-names-that-are-as-long-as-file-systems-allow-them-to-be-ok",
    "Token", "Vault", "a", "b", "x y", "weird:name", "- dash", "#hash", "`tick`", "### Lines", "## High Risk", "## Low Risk", "合约", "é",
    "A.sol:12", "- A.sol:3", "..", "Token.sol", "  ", "(Total Optimizations 7)", "- ", ":", "\t", "0",
];

pub fn hostile_name(rng: &Rng) -> String {
    let mut s = String::new();
    for _ in 0..rng.range(1, 3) {
        s.push_str(rng.ps(&NAME_PARTS));
    }
    if rng.chance(2, 3) {
        s.push_str(".sol");
    }
    s
}

pub fn gen_entries(rng: &Rng, max_files: usize) -> Entries {
    let n = rng.range(1, max_files);
    let mut v: Entries = vec![];
    for _ in 0..n {
        if !v.is_empty() && rng.chance(1, 8) {
            // a name that differs from an earlier one only in letter case (or not at all), with the same or another line set
            let (n0, l0) = v[rng.below(v.len())].clone();
            let name = match rng.below(7) {
                0 => n0.clone(),
                // names that a path comparison takes for the same path: a trailing separator, a doubled separator, a `.` component
                4 => format!("{}/", n0),
                5 => match n0.find('/') {
                    Some(i) => format!("{}/{}", &n0[..i], &n0[i..]),
                    None => format!("{}/.", n0),
                },
                6 => match n0.find('/') {
                    Some(i) => format!("{}/.{}", &n0[..i], &n0[i..]),
                    None => format!("./{}", n0),
                },
                3 => {
                    // a numeric variant: a zero inserted before the first digit run, or "1" appended ("Vault1" / "Vault01")
                    match n0.find(|c: char| c.is_ascii_digit()) {
                        Some(i) => format!("{}0{}", &n0[..i], &n0[i..]),
                        None => format!("{}01", n0),
                    }
                }
                1 => n0.to_uppercase(),
                _ => n0.chars().enumerate().map(|(i, c)| if i % 2 == 0 { c.to_ascii_uppercase() } else { c.to_ascii_lowercase() }).collect(),
            };
            if rng.chance(1, 2) {
                v.push((name, l0));
                continue;
            }
            if rng.chance(1, 2) {
                // the same lines and one or two more behind them (now and then behind 20-300 common ones)
                let mut l1 = l0.clone();
                if rng.chance(1, 2) {
                    let base = l1.iter().next_back().copied().unwrap_or(0).max(0);
                    for i in 0..rng.range(20, if rng.chance(1, 6) { 300 } else { 40 }) {
                        l1.insert(base + 1 + i as i32);
                    }
                    let last = v.len() - 1;
                    let _ = last;
                    v.push((name.clone(), l1.clone()));
                }
                let top = l1.iter().next_back().copied().unwrap_or(0).max(0);
                l1.insert(top + rng.range(1, 9) as i32);
                v.push((name, l1));
                continue;
            }
            let k = rng.range(1, 5);
            let lines: BTreeSet<i32> = (0..k).map(|_| rng.range(1, 400) as i32).collect();
            v.push((name, lines));
            continue;
        }
        let name = hostile_name(rng);
        // mostly a few lines per file; now and then dozens, rarely hundreds (more than 250)
        let k = rng.range(1, if rng.chance(1, 10) { 30 } else { 5 });
        let k = if rng.chance(1, 60) { rng.range(251, 1200) } else { k };
        let lines: BTreeSet<i32> = (0..k)
            .map(|_| match rng.below(40) {
                0 => rng.range(1, 99999) as i32,
                1 => rng.range(1, 99999) as i32 * 21474,
                2 => 0,
                3 => -(rng.range(1, 400) as i32),
                _ => rng.range(1, 400) as i32,
            })
            .collect();
        v.push((name, lines));
    }
    v
}

/// findings for one category: subset given by bitmask over the category's patterns
pub fn gen_map(rng: &Rng, category: &str, mask: u64, max_files: usize) -> Vec<(&'static str, Entries)> {
    let mut v: Vec<(&'static str, Entries)> = vec![];
    for (i, p) in patterns_of(category).iter().enumerate() {
        if mask & (1 << i) != 0 {
            let mut es = gen_entries(rng, max_files);
            if rng.chance(1, 25) {
                // a file with an empty line set next to real ones: contributes no finding
                es.insert(rng.below(es.len() + 1), (hostile_name(rng), BTreeSet::new()));
            }
            v.push((*p, es));
        } else if rng.chance(1, 8) {
            // "any number of files per pattern" includes none: the pattern is a key of the map but has no finding
            v.push((*p, vec![]));
        }
    }
    v
}

/// one pattern with `total` entries: `total / per_file` files of `per_file` lines each (plus a last shorter one)
pub fn gen_huge_entries(total: usize, per_file: usize) -> Entries {
    let mut v: Entries = vec![];
    let mut left = total;
    let mut i = 0;
    while left > 0 {
        let n = per_file.min(left);
        v.push((format!("Big{:05}.sol", i), (1..=n as i32).collect()));
        left -= n;
        i += 1;
    }
    v
}

/// does the pattern have at least one finding in the map?
pub fn has_findings(es: &Entries) -> bool {
    es.iter().any(|(_, ls)| !ls.is_empty())
}

pub fn map_json(m: &[(&'static str, Entries)]) -> Value {
    Value::Array(m.iter().map(|(p, es)| json!([p, es.iter().map(|(f, ls)| json!([f, ls])).collect::<Vec<_>>()])).collect())
}

pub fn map_from_json(v: &Value) -> Vec<(&'static str, Entries)> {
    let mut out = vec![];
    if let Some(a) = v.as_array() {
        for row in a {
            let name = row[0].as_str().unwrap_or("");
            let stat = crate::dets::ALL.iter().find(|(n, _)| *n == name).map(|(n, _)| *n);
            if let Some(n) = stat {
                let es: Entries = row[1]
                    .as_array()
                    .map(|fs| {
                        fs.iter()
                            .map(|f| (f[0].as_str().unwrap_or("").to_string(), f[1].as_array().map(|ls| ls.iter().filter_map(|l| l.as_i64()).map(|l| l as i32).collect()).unwrap_or_default()))
                            .collect()
                    })
                    .unwrap_or_default();
                out.push((n, es));
            }
        }
    }
    out
}

/// worker: `vmon worker genreport <dir>`: JSON {"v":..,"o":..,"q":..} on stdin, calls generate_report with cwd = dir
pub fn worker_genreport(args: &[String]) -> i32 {
    let dir = &args[0];
    let mut s = String::new();
    std::io::stdin().read_to_string(&mut s).unwrap();
    let j: Value = serde_json::from_str(&s).unwrap();
    let v = map_from_json(&j["v"]);
    let o = map_from_json(&j["o"]);
    let q = map_from_json(&j["q"]);
    let seed = j["seed"].as_u64().unwrap_or(0);
    let rng = Rng::new(seed, "genreport", 0);
    let mut ord = |n: usize| -> Vec<usize> {
        let mut x: Vec<usize> = (0..n).collect();
        rng.shuffle(&mut x);
        x
    };
    let (ov, oo, oq) = (ord(v.len()), ord(o.len()), ord(q.len()));
    std::env::set_current_dir(dir).unwrap();
    solstat::report::generation::generate_report(report::to_vuln_map(&v, &ov, 0), report::to_opt_map(&o, &oo, 0), report::to_qa_map(&q, &oq, 0));
    0
}

pub fn run_genreport(dir: &str, v: &[(&'static str, Entries)], o: &[(&'static str, Entries)], q: &[(&'static str, Entries)], seed: u64) -> Result<String, String> {
    let exe = std::path::PathBuf::from("/proc/self/exe"); // the running image itself, even if the file on disk has been rebuilt meanwhile
    let mut child = std::process::Command::new(exe)
        .args(["worker", "genreport", dir])
        .stdin(std::process::Stdio::piped())
        .stdout(std::process::Stdio::null())
        .stderr(std::process::Stdio::null())
        .spawn()
        .map_err(|e| e.to_string())?;
    let body = json!({"v": map_json(v), "o": map_json(o), "q": map_json(q), "seed": seed}).to_string();
    child.stdin.take().unwrap().write_all(body.as_bytes()).map_err(|e| e.to_string())?;
    let st = child.wait().map_err(|e| e.to_string())?;
    if !st.success() {
        return Err(format!("generate_report worker failed: {:?}", st));
    }
    match std::fs::read_to_string(format!("{}/solstat_report.md", dir)) {
        Ok(t) => Ok(t),
        // no file at all: for three empty maps that reads as an empty report here (whether a previous report
        // must be replaced is C18's subject); with findings it is a missing report
        Err(_) if v.is_empty() && o.is_empty() && q.is_empty() => Ok(String::new()),
        Err(e) => Err(format!("REPORT-NOT-WRITTEN: {}", e)),
    }
}

pub fn scratch_dir(tag: &str) -> String {
    static N: std::sync::atomic::AtomicU64 = std::sync::atomic::AtomicU64::new(0);
    let base = if std::path::Path::new("/dev/shm").is_dir() { "/dev/shm" } else { "/tmp" };
    let d = format!("{}/vmon-{}-{}-{}", base, tag, std::process::id(), N.fetch_add(1, std::sync::atomic::Ordering::Relaxed));
    let _ = std::fs::remove_dir_all(&d);
    std::fs::create_dir_all(&d).unwrap();
    d
}

fn name_class(f: &str) -> &'static str {
    if f.contains(':') {
        "name-with-colon"
    } else if f.starts_with("- ") {
        "name-starting-with-dash"
    } else if f.contains('#') {
        "name-with-hash"
    } else if !f.is_ascii() {
        "non-ascii-name"
    } else if f.contains(' ') || f.contains('\t') {
        "name-with-space"
    } else {
        "plain-name"
    }
}

/// The C11 oracle on one rendered category report.
pub fn check_roundtrip(category: &str, m: &[(&'static str, Entries)], text: &str, table: &[(&'static str, &'static str, String, Option<&'static str>)], acc: &mut Acc) -> Option<report::Part> {
    acc.eval();
    let part = match report::parse_category(text, category, table) {
        Ok(p) => p,
        Err(e) => {
            acc.violation(format!("report-grammar:{}", category), json!({"category": category, "findings": map_json(m), "parse_error": e, "report": trunc(text, 3000)}));
            return None;
        }
    };
    let exp = report::flatten_map(m);
    let got = report::flatten_part(&part);
    // one section per pattern with findings, none for others
    let mut count: BTreeMap<&str, usize> = BTreeMap::new();
    for s in &part.sections {
        *count.entry(s.pattern).or_insert(0) += 1;
    }
    for (p, es0) in m {
        if !has_findings(es0) {
            continue;
        }
        match count.get(p).copied().unwrap_or(0) {
            1 => {}
            0 => {
                // is its entry list under another pattern's section?
                let mine: BTreeSet<(String, String)> = exp.iter().filter(|e| e.0 == *p).map(|e| (e.1.clone(), e.2.clone())).collect();
                let found = part.sections.iter().find(|s| s.entries.iter().cloned().collect::<BTreeSet<_>>() == mine && !m.iter().any(|(q, _)| q == &s.pattern && q != p && false));
                let sig = match found {
                    Some(s) if s.pattern != *p => format!("section-mismatch:{}->{}", p, s.pattern),
                    _ => format!("section-missing:{}", p),
                };
                acc.violation(sig, json!({"category": category, "pattern": p, "findings": map_json(m), "report": trunc(text, 3000)}));
                return Some(part);
            }
            n => {
                acc.violation(format!("section-repeated:{}", p), json!({"category": category, "pattern": p, "times": n, "findings": map_json(m)}));
                return Some(part);
            }
        }
    }
    for (p, n) in &count {
        if !m.iter().any(|(q, es0)| q == p && has_findings(es0)) {
            acc.violation(format!("section-without-findings:{}", p), json!({"category": category, "pattern": p, "times": n, "findings": map_json(m), "report": trunc(text, 3000)}));
            return Some(part);
        }
    }
    if exp != got {
        let es: BTreeSet<_> = exp.iter().cloned().collect();
        let gs: BTreeSet<_> = got.iter().cloned().collect();
        let lost: Vec<_> = es.difference(&gs).cloned().collect();
        let foreign: Vec<_> = gs.difference(&es).cloned().collect();
        let sig = if let Some(l) = lost.first() {
            if foreign.iter().any(|f| f.1 == l.1 && f.2 == l.2) {
                format!("entry-under-wrong-section:{}", l.0)
            } else if !foreign.is_empty() {
                format!("entry-format:{}", name_class(&l.1))
            } else {
                "entry-lost".to_string()
            }
        } else if !foreign.is_empty() {
            "entry-foreign".to_string()
        } else {
            "entry-multiplicity".to_string()
        };
        acc.violation(sig, json!({"category": category, "findings": map_json(m), "lost": lost.iter().take(5).collect::<Vec<_>>(), "foreign": foreign.iter().take(5).collect::<Vec<_>>(), "report": trunc(text, 3000)}));
    }
    Some(part)
}

pub fn run(ctx: &Ctx) -> i32 {
    let mut acc = Acc::default();
    let mut meta = Meta::new(
        "findings maps per category: every subset of the 4 vulnerability and 3 QA patterns, random subsets of the 23 optimisation patterns, 1-40 files per pattern with hostile names \
         (spaces, ':', '- ', '#', back-ticks, '### Lines', '## High Risk', UTF-8, duplicates; no line breaks), 1-30 lines in 1..99999. The returned String is parsed back by a strict grammar parser \
         whose pattern->section table is independent of get_*_report_section; the multiset of (pattern, file, line) must equal the input. Plus whole-file round trips through generate_report in a helper process. \
         evaluation = one rendered report parsed back; non-trivial = map with >= 2 patterns or a file name containing ':' / '- ' / '#'; distinct by map content",
    );
    let table = report::section_table();
    let probs = report::table_problems(&table);
    for p in &probs {
        acc.inconclusive(format!("section table self-check: {}", p));
    }
    let n = ctx.tier.pick(30_000u64, 20_000_000u64);
    run_workload(ctx, &mut acc, "maps", n, |k, rng, acc| {
        let category = ["optimizations", "vulnerabilities", "qa"][(k % 3) as usize];
        let np = patterns_of(category).len();
        let mask: u64 = match category {
            "vulnerabilities" => 1 + (k / 3) % 15,
            "qa" => 1 + (k / 3) % 7,
            _ => {
                if rng.chance(1, 10) {
                    (1u64 << np) - 1
                } else {
                    let mut m = 0u64;
                    for i in 0..np {
                        if rng.chance(1, 4) {
                            m |= 1 << i;
                        }
                    }
                    if m == 0 {
                        m = 1 << rng.below(np);
                    }
                    m
                }
            }
        };
        let max_files = if rng.chance(1, 20) { 40 } else { 4 };
        let m = gen_map(rng, category, mask, max_files);
        let order: Vec<usize> = (0..m.len()).collect();
        let text = report::render_category(category, &m, &order, 0);
        check_roundtrip(category, &m, &text, &table, acc);
        acc.cov(&format!("maps:{}", category));
        let hostile = m.iter().any(|(_, es)| es.iter().any(|(f, _)| f.contains(':') || f.contains("- ") || f.contains('#')));
        if m.iter().any(|(_, e)| e.is_empty()) {
            acc.cov("maps:with-a-pattern-that-has-no-files");
        }
        if m.len() >= 2 || hostile {
            acc.nontrivial_h(hash_str(&map_json(&m).to_string()));
        }
        if hostile {
            acc.cov("maps:with-hostile-file-names");
        }
        if k < 3 {
            acc.sample(json!({"category": category, "findings": map_json(&m)}));
        }
    });
    meta.exhaustive_subspaces.push("all 15 non-empty subsets of the vulnerability patterns and all 7 of the QA patterns (as pattern sets; multiplicities random)".into());
    // very long lists: more than 2^16 entries in a part, more than 64 KiB / 1 MiB of entries under one pattern
    let sizes = [65_535usize, 65_536, 65_537, 80_000, 3_000, 140_000];
    run_workload(ctx, &mut acc, "huge-maps", (sizes.len() * 3 * 2) as u64, |k, rng, acc| {
        let category = ["optimizations", "vulnerabilities", "qa"][(k % 3) as usize];
        let total = sizes[((k / 3) as usize) % sizes.len()];
        let per_file = if (k / 18) % 2 == 0 { 10 } else { 400 };
        let pats = patterns_of(category);
        let p0 = pats[rng.below(pats.len())];
        let mut m: Vec<(&'static str, Entries)> = vec![(p0, gen_huge_entries(total, per_file))];
        // a small neighbour pattern before or after it
        let p1 = pats[rng.below(pats.len())];
        if p1 != p0 {
            m.push((p1, vec![("Small.sol".to_string(), [3, 9].into_iter().collect())]));
        }
        let order: Vec<usize> = (0..m.len()).collect();
        let text = report::render_category(category, &m, &order, 0);
        check_roundtrip(category, &m, &text, &table, acc);
        acc.cov(&format!("huge-maps:{}-entries", total));
        acc.nontrivial_h(hash_str(&format!("huge{}{}{}", category, total, per_file)));
    });

    // whole-file round trip through generate_report (helper process, private cwd)
    let nfile = ctx.tier.pick(80u64, 20000u64);
    run_workload(ctx, &mut acc, "whole-file", nfile, |k, rng, acc| {
        let present = k % 8;
        let v = if present & 1 != 0 { gen_map(rng, "vulnerabilities", 1 + rng.below(15) as u64, 3) } else { vec![] };
        let o = if present & 2 != 0 { gen_map(rng, "optimizations", 1 + rng.below(1 << 12) as u64, 3) } else { vec![] };
        let q = if present & 4 != 0 { gen_map(rng, "qa", 1 + rng.below(7) as u64, 3) } else { vec![] };
        let dir = scratch_dir("c11");
        let res = run_genreport(&dir, &v, &o, &q, rng.next());
        let _ = std::fs::remove_dir_all(&dir);
        let text = match res {
            Ok(t) => t,
            Err(e) => {
                if e.starts_with("REPORT-NOT-WRITTEN") {
                    acc.eval();
                    acc.violation("report-not-written", json!({"v": map_json(&v), "o": map_json(&o), "q": map_json(&q), "detail": e}));
                } else {
                    acc.inconclusive(format!("generate_report helper: {}", e));
                }
                return;
            }
        };
        acc.eval();
        acc.cov("whole-file-reports");
        match report::parse_report(&text, &table) {
            Err(e) => acc.violation("report-grammar:whole-file", json!({"v": map_json(&v), "o": map_json(&o), "q": map_json(&q), "parse_error": e, "report": trunc(&text, 3000)})),
            Ok(p) => {
                let mut got = vec![];
                for part in [&p.vuln, &p.opt, &p.qa].into_iter().flatten() {
                    got.extend(report::flatten_part(part));
                }
                got.sort();
                let mut exp = report::flatten_map(&v);
                exp.extend(report::flatten_map(&o));
                exp.extend(report::flatten_map(&q));
                exp.sort();
                if got != exp {
                    acc.violation("whole-file:entries-differ", json!({"v": map_json(&v), "o": map_json(&o), "q": map_json(&q), "report": trunc(&text, 3000)}));
                }
            }
        }
    });
    if ctx.replay.is_none() && acc.cov_get("maps:with-hostile-file-names") < 100 {
        acc.inconclusive("coverage floor: fewer than 100 maps with hostile file names".to_string());
    }
    meta.assumptions = vec![
        "file names contain no line breaks (LF, CR), as the property states".into(),
        "the 30 section texts are pairwise distinct and none is a prefix of another (checked at start-up)".into(),
        "a file name is everything between '- ' and the last ':' of an entry line".into(),
    ];
    finish(ctx, acc, meta)
}
