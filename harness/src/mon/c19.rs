//! C19 — findings compose over the top-level items of a file.
use crate::common::*;
use crate::corpus;
use crate::dets;
use crate::gen::{Builder, Cfg};
use crate::layout::{self, Layout};
use serde_json::json;
use solang_parser::pt;
use std::collections::{BTreeSet, HashSet};

fn item_kind(p: &pt::SourceUnitPart) -> &'static str {
    match p {
        pt::SourceUnitPart::ContractDefinition(c) => match c.ty {
            pt::ContractTy::Abstract(_) => "abstract-contract",
            pt::ContractTy::Contract(_) => "contract",
            pt::ContractTy::Interface(_) => "interface",
            pt::ContractTy::Library(_) => "library",
        },
        pt::SourceUnitPart::PragmaDirective(..) => "pragma",
        pt::SourceUnitPart::ImportDirective(_) => "import",
        pt::SourceUnitPart::EnumDefinition(_) => "enum",
        pt::SourceUnitPart::StructDefinition(_) => "struct",
        pt::SourceUnitPart::EventDefinition(_) => "event",
        pt::SourceUnitPart::ErrorDefinition(_) => "error",
        pt::SourceUnitPart::FunctionDefinition(_) => "free-function",
        pt::SourceUnitPart::VariableDefinition(_) => "file-variable",
        pt::SourceUnitPart::TypeDefinition(_) => "type-definition",
        pt::SourceUnitPart::Using(_) => "using",
        pt::SourceUnitPart::StraySemicolon(_) => "stray-semicolon",
    }
}

fn state_var_names(p: &pt::SourceUnitPart) -> Vec<String> {
    match p {
        pt::SourceUnitPart::ContractDefinition(c) => c
            .parts
            .iter()
            .filter_map(|x| if let pt::ContractPart::VariableDefinition(v) = x { Some(v.name.name.clone()) } else { None })
            .collect(),
        pt::SourceUnitPart::VariableDefinition(v) => vec![v.name.name.clone()],
        _ => vec![],
    }
}

fn identifiers(text: &str) -> HashSet<&str> {
    // identifiers may contain non-ASCII letters (solang accepts Unicode XID characters)
    let mut out = HashSet::new();
    let mut start: Option<usize> = None;
    for (i, c) in text.char_indices() {
        let idc = c.is_alphanumeric() || c == '_' || c == '$';
        match (start, idc) {
            (None, true) => start = Some(i),
            (Some(s), false) => {
                out.insert(&text[s..i]);
                start = None;
            }
            _ => {}
        }
    }
    if let Some(s) = start {
        out.insert(&text[s..]);
    }
    out
}

fn blank(text: &str, keep: &[(usize, usize)]) -> String {
    let mut out: Vec<u8> = text.bytes().map(|b| if b == b'\n' { b'\n' } else { b' ' }).collect();
    for (s, e) in keep {
        out[*s..*e].copy_from_slice(&text.as_bytes()[*s..*e]);
    }
    String::from_utf8(out).unwrap_or_default()
}

/// returns false if the case was discarded / skipped
pub fn check_file(name: &str, text: &str, acc: &mut Acc) -> bool {
    let su = match solang_parser::parse(text, 0) {
        Ok((su, _)) => su,
        Err(_) => {
            acc.discards += 1;
            return false;
        }
    };
    let parts = &su.0;
    if parts.is_empty() {
        return false;
    }
    // extents: start of part i .. start of part i+1 (last: end of file)
    let starts: Vec<usize> = parts.iter().map(|p| p.loc().start()).collect();
    for w in starts.windows(2) {
        if w[0] > w[1] {
            acc.discards += 1;
            acc.cov("discard:parts-not-in-offset-order");
            return false;
        }
    }
    let extent = |i: usize| -> (usize, usize) { (starts[i], if i + 1 < starts.len() { starts[i + 1] } else { text.len() }) };
    let pragma_idx: Vec<usize> = (0..parts.len()).filter(|i| matches!(parts[*i], pt::SourceUnitPart::PragmaDirective(..))).collect();
    let item_idx: Vec<usize> = (0..parts.len()).filter(|i| !matches!(parts[*i], pt::SourceUnitPart::PragmaDirective(..))).collect();
    if item_idx.len() < 2 {
        acc.cov("skipped:fewer-than-2-items");
        return false;
    }
    // precondition: items do not mention each other's state-variable names
    let item_texts: Vec<&str> = item_idx.iter().map(|i| &text[extent(*i).0..extent(*i).1]).collect();
    let idents: Vec<HashSet<&str>> = item_texts.iter().map(|t| identifiers(t)).collect();
    for (a, ia) in item_idx.iter().enumerate() {
        for n in state_var_names(&parts[*ia]) {
            for (b, _) in item_idx.iter().enumerate() {
                if a != b && idents[b].contains(n.as_str()) {
                    acc.cov("skipped:items-share-state-variable-name");
                    return false;
                }
            }
        }
    }
    // build the single-item variants
    let mut variants: Vec<(usize, String)> = vec![];
    for &i in &item_idx {
        let mut keep: Vec<(usize, usize)> = pragma_idx.iter().map(|p| extent(*p)).collect();
        keep.push(extent(i));
        let v = blank(text, &keep);
        // re-parse check: exactly the pragmas + item i
        match solang_parser::parse(&v, 0) {
            Ok((su2, _)) => {
                let n_items = su2.0.iter().filter(|p| !matches!(p, pt::SourceUnitPart::PragmaDirective(..))).count();
                let n_prag = su2.0.len() - n_items;
                if n_items != 1 || n_prag != pragma_idx.len() || su2.0.iter().find(|p| !matches!(p, pt::SourceUnitPart::PragmaDirective(..))).map(|p| p.loc().start()) != Some(starts[i]) {
                    acc.discards += 1;
                    acc.cov("discard:variant-structure");
                    return false;
                }
            }
            Err(_) => {
                acc.discards += 1;
                acc.cov("discard:variant-does-not-parse");
                return false;
            }
        }
        variants.push((i, v));
    }
    acc.cov_n("variants", variants.len() as u64);
    let mut any = false;
    for (dname, det) in dets::ALL.iter() {
        if *dname == "safe_math_pre_080" || *dname == "safe_math_post_080" {
            continue;
        }
        let whole = match guarded(|| det.lines(text, 0)) {
            Ok(l) => l,
            Err(_) => {
                acc.cov("detector-panicked(skipped, see C04)");
                continue;
            }
        };
        let mut union: BTreeSet<i32> = BTreeSet::new();
        let mut per_item: Vec<(usize, BTreeSet<i32>)> = vec![];
        let mut panicked = false;
        for (i, v) in &variants {
            match guarded(|| det.lines(v, 0)) {
                Ok(l) => {
                    union.extend(l.iter().copied());
                    per_item.push((*i, l));
                }
                Err(_) => {
                    panicked = true;
                    break;
                }
            }
        }
        if panicked {
            acc.cov("detector-panicked(skipped, see C04)");
            continue;
        }
        acc.eval();
        if !whole.is_empty() || !union.is_empty() {
            any = true;
            acc.cov("comparisons-with-findings");
        }
        if whole != union {
            let gained: Vec<i32> = whole.difference(&union).copied().collect();
            let lost: Vec<i32> = union.difference(&whole).copied().collect();
            // which item holds the first differing line, and what precedes/follows it
            let line = *gained.first().or(lost.first()).unwrap();
            let holder = item_idx.iter().position(|i| {
                let (s, e) = extent(*i);
                let ls = dets::ref_line(text, s);
                let le = dets::ref_line(text, e.saturating_sub(1).max(s));
                line >= ls && line <= le
            });
            let (hk, nk) = match holder {
                Some(h) => {
                    let hk = item_kind(&parts[item_idx[h]]);
                    let neighbours: BTreeSet<&str> = item_idx.iter().enumerate().filter(|(j, _)| *j != h).map(|(_, i)| item_kind(&parts[*i])).collect();
                    (hk, neighbours.into_iter().collect::<Vec<_>>().join("+"))
                }
                None => ("?", "?".to_string()),
            };
            let dir = if !gained.is_empty() { "gains-in-context" } else { "loses-in-context" };
            acc.violation(
                format!("{}:{}", dname, dir),
                json!({"program": name, "detector": dname, "whole_file_lines": whole, "union_of_items": union, "gained": gained, "lost": lost,
                       "item_holding_line": hk, "other_items": nk, "per_item": per_item.iter().map(|(i, l)| json!({"item": item_kind(&parts[*i]), "lines": l})).collect::<Vec<_>>(),
                       "text": trunc(text, 4000)}),
            );
        }
    }
    let shape: Vec<&str> = item_idx.iter().map(|i| item_kind(&parts[*i])).collect();
    for w in shape.windows(2) {
        acc.cov(&format!("adjacent:{}>{}", w[0], w[1]));
    }
    if any {
        acc.nontrivial_str(text);
    }
    true
}

/// deliberately sensitive shapes (DESIGN.md C19)
fn shaped(k: u64, rng: &Rng) -> String {
    let lib = "library L%N% {\n    function helper%N%(uint256 a) internal pure returns (uint256) {\n        return a + 1;\n    }\n}\n";
    let iface = "interface I%N% {\n    function ping%N%(uint256 a) external returns (uint256);\n}\n";
    let free = "function free%N%(uint256 a) pure returns (uint256) {\n    return a * 2;\n}\n";
    let good = "contract Good%N% {\n    uint256 public total%N%;\n    address private _admin%N%;\n    constructor(uint256 t) {\n        total%N% = t;\n        _admin%N% = msg.sender;\n    }\n    function bump%N%() external {\n        total%N% += 1;\n    }\n}\n";
    let bad = "contract Bad%N% {\n    uint256 public count%N%;\n    function first%N%() public {\n        count%N% = 1;\n    }\n    constructor() {\n        count%N% = 2;\n    }\n}\n";
    let noctor = "contract Plain%N% {\n    uint256 internal value%N%;\n    address owner%N%;\n    function set%N%(uint256 v) external {\n        value%N% = v;\n        owner%N% = msg.sender;\n    }\n    function kill%N%() external {\n        selfdestruct(payable(msg.sender));\n    }\n}\n";
    let guarded = "contract Guarded%N% {\n    address private _owner%N%;\n    function destroy() external {\n        require(msg.sender == _owner%N%, \"no\");\n        selfdestruct(payable(_owner%N%));\n    }\n    function update(uint256 v) public returns (uint256) {\n        return v * 4;\n    }\n}\n";
    let open_ = "contract Open%N% {\n    function destroy() external {\n        selfdestruct(payable(msg.sender));\n    }\n    function update(uint256 v) public returns (uint256) {\n        return v / 3;\n    }\n    function _helper() private {}\n}\n";
    let spaced = "contract Spaced%N% {\n    uint256 public n%N%;\n    function first%N%() public {\n        n%N% = 1;\n    }\n    constructor () {\n        n%N% = 2;\n    }\n}\n";
    let loose = "contract Loose%N% {\n    uint8 small%N%;\n    uint256 big%N%;\n    uint8 tiny%N%;\n}\n";
    let st = "struct S%N% {\n    uint8 a;\n    uint256 b;\n    uint8 c;\n}\n";
    let pool = [lib, iface, free, good, bad, noctor, st, guarded, open_, spaced, loose, loose];
    let mut out = String::from("pragma solidity 0.8.17;\n");
    let n = rng.range(2, 6);
    let mut idx = k as usize;
    for j in 0..n {
        let t = if j < 2 { pool[idx % pool.len()] } else { *rng.pick(&pool) };
        idx /= pool.len();
        out.push_str(&t.replace("%N%", &format!("{}", j)));
        if rng.chance(1, 3) {
            out.push('\n');
        }
    }
    out
}

/// Two items that share a *name* other than a state variable's: item A declares it, item B declares or uses it.
/// Returns (number of combinations, text of combination k).
fn namesakes(k: u64, rng: &Rng) -> (u64, String) {
    let definers: [&str; 13] = [
        "contract HolderA {\n    address stewardA;\n    uint256 reserveA;\n    modifier %X%() {\n        require(msg.sender == stewardA, \"not the steward\");\n        _;\n    }\n    function topUpA(uint256 amount) public %X% {\n        reserveA = reserveA + amount;\n    }\n}\n",
        "contract HolderA {\n    modifier %X%() {\n        _;\n    }\n    function pokeA() public %X% {}\n}\n",
        "contract HolderA {\n    enum %X% { Off, On }\n    uint8 smallA;\n    uint256 bigA;\n    uint8 tinyA;\n}\n",
        "enum %X% { Off, On }\n",
        "struct %X% {\n    uint8 a;\n    uint256 b;\n    uint8 c;\n}\n",
        "type %X% is uint8;\n",
        "library %X% {\n    function add(uint256 a, uint256 b) internal pure returns (uint256) {\n        return a + b;\n    }\n    function transfer(address to, uint256 v) internal {}\n}\n",
        "interface %X% {\n    function transfer(address to, uint256 v) external returns (bool);\n    function approve(address to, uint256 v) external returns (bool);\n}\n",
        "contract HolderA {\n    address keeperA;\n    function %X%() public {\n        require(msg.sender == keeperA);\n        selfdestruct(payable(msg.sender));\n    }\n    function _%X%() internal {}\n}\n",
        "function %X%(uint256 v) pure returns (uint256) {\n    return v * 4;\n}\n",
        "contract HolderA {\n    event %X%(uint256 v);\n    error %X%Failed();\n    function emitA() external {\n        emit %X%(1);\n    }\n}\n",
        "abstract contract %X% {\n    uint256 internal baseA;\n    constructor(uint256 v) {\n        baseA = v;\n    }\n    function hookA() internal virtual;\n}\n",
        "contract %X% {\n    address immutable ownerA;\n    constructor() {\n        ownerA = msg.sender;\n    }\n    function killA() external {\n        if (msg.sender != ownerA) revert();\n        selfdestruct(payable(ownerA));\n    }\n}\n",
    ];
    let users: [&str; 12] = [
        "contract UserB {\n    bool armedB;\n    modifier %X%() {\n        require(armedB, \"not armed\");\n        _;\n    }\n    function armB() public {\n        armedB = true;\n    }\n    function boomB() public %X% {\n        selfdestruct(payable(address(0)));\n    }\n}\n",
        "contract UserB {\n    function boomB() external %X% {\n        selfdestruct(payable(address(0)));\n    }\n}\n",
        "contract UserB {\n    bool aB;\n    uint256 bB;\n    %X% mB;\n}\n",
        "contract UserB {\n    %X% mB;\n    uint256 bB;\n    bool aB;\n    uint128 hB;\n}\n",
        "contract UserB {\n    struct PB {\n        bool a;\n        uint256 b;\n        %X% m;\n    }\n    struct QB {\n        %X% m;\n        uint128 h;\n        uint256 b;\n        uint128 g;\n    }\n}\n",
        "struct PB {\n    bool a;\n    uint256 b;\n    %X% m;\n}\n",
        "contract UserB {\n    uint256 totalB;\n    function runB(address t, uint256 v) external {\n        %X%(t).transfer(msg.sender, v);\n        totalB = totalB + v / 3 * 2;\n    }\n}\n",
        "contract UserB {\n    using %X% for uint256;\n    uint256[] itemsB;\n    function fB(uint256 v) public returns (uint256) {\n        for (uint256 i = 0; i < itemsB.length; i++) {\n            v = v.add(itemsB[i]);\n        }\n        return v;\n    }\n}\n",
        "contract UserB {\n    function %X%() external {\n        selfdestruct(payable(msg.sender));\n    }\n    function _%X%() private {}\n    function %X%(uint256 v) public returns (uint256) {\n        return v / 3 * 2;\n    }\n}\n",
        "contract UserB {\n    uint256 nB;\n    function gB(%X% memory p, uint256[] memory q) public returns (uint256) {\n        %X% memory l = p;\n        nB = q.length;\n        return nB;\n    }\n    constructor() {\n        nB = 2;\n    }\n}\n",
        "contract UserB is %X% {\n    address ownerB;\n    uint256 public countB;\n    constructor() %X%(1) {\n        ownerB = msg.sender;\n    }\n    function bumpB() public {\n        countB += 1;\n    }\n    function endB() public {\n        selfdestruct(payable(ownerB));\n    }\n}\n",
        "contract UserB {\n    uint256 valueB;\n    function emitB(uint256 v) external {\n        if (v == 0) revert %X%Failed();\n        emit %X%(v);\n        valueB = %X%(v);\n    }\n}\n",
    ];
    let names = ["auth", "Mode", "guard", "Lib"];
    let total = (definers.len() * users.len() * 2 * names.len()) as u64;
    let mut i = (k % total) as usize;
    let d = definers[i % definers.len()];
    i /= definers.len();
    let u = users[i % users.len()];
    i /= users.len();
    let a_first = i % 2 == 0;
    i /= 2;
    let x = names[i % names.len()];
    let mut out = String::from(*rng.pick(&["pragma solidity 0.8.17;\n", "pragma solidity 0.7.6;\n", "pragma solidity ^0.8.4;\n\n", "pragma solidity 0.4.24;\n", "pragma solidity ^0.4.11;\n", "pragma solidity 0.6.8;\n"]));
    let (first, second) = if a_first { (d, u) } else { (u, d) };
    out.push_str(&first.replace("%X%", x));
    if k >= total && rng.chance(1, 2) {
        // beyond the systematic part: an unrelated item in between
        out.push_str("contract FillerC {\n    uint8 smallC;\n    uint256 bigC;\n    uint8 tinyC;\n    function updateC(uint256 v) public returns (uint256) {\n        return v / 3 * 2;\n    }\n}\n");
    }
    out.push_str(&second.replace("%X%", x));
    (total, out)
}

pub fn run(ctx: &Ctx) -> i32 {
    let mut acc = Acc::default();
    let mut meta = Meta::new(
        "files with >= 2 non-pragma top-level items whose items do not mention each other's state-variable names: generated files, hand-shaped files \
         (library/interface/free function before a contract with a leading constructor, two contracts with misplaced constructors, constructor-less contract next to one with a constructor, structs), \
         corpus files and concatenations of two corpus files; namesake pairs (13 declaring items x 12 items declaring or using the same name as a modifier, type, library, interface, base contract, function, event or error x both orders x 4 names, all combinations in both tiers). For each of the 28 detectors (all but the SafeMath pair): lines(file) == union over items of lines(file with every other item blanked, newlines kept). \
         evaluation = one (file, detector) comparison; non-trivial = file where at least one detector reports something; distinct by file text",
    );
    let progs = corpus::load();
    run_workload(ctx, &mut acc, "corpus", progs.len() as u64, |k, _rng, acc| {
        let p = &progs[k as usize];
        check_file(&p.name, &p.text, acc);
    });
    let n_pairs = ctx.tier.pick(60u64, 10000u64);
    run_workload(ctx, &mut acc, "corpus-pairs", n_pairs, |_k, rng, acc| {
        let a = rng.pick(&progs);
        let b = rng.pick(&progs);
        let mut t = a.text.clone();
        if !t.ends_with('\n') {
            t.push('\n');
        }
        t.push_str(&b.text);
        if dets::parses(&t) {
            check_file(&format!("{}+{}", a.name, b.name), &t, acc);
        }
    });
    let n_shaped = ctx.tier.pick(300u64, 60000u64);
    run_workload(ctx, &mut acc, "shaped", n_shaped, |k, rng, acc| {
        let t = shaped(k, rng);
        if check_file(&format!("shaped#{}", k), &t, acc) {
            acc.cov("programs:shaped");
            if k == 3 {
                acc.sample(json!({"program": format!("shaped#{}", k), "text": t}));
            }
        }
    });
    let total_ns = namesakes(0, &Rng::from_seed(1)).0;
    let n_ns = ctx.tier.pick(total_ns, total_ns * 3);
    run_workload(ctx, &mut acc, "namesakes", n_ns, |k, rng, acc| {
        let (_, t) = namesakes(k, rng);
        if check_file(&format!("namesakes#{}", k), &t, acc) {
            acc.cov("programs:namesakes");
            if k == 0 {
                acc.sample(json!({"program": "namesakes#0", "text": t}));
            }
        } else {
            acc.cov("programs:namesakes-skipped-or-discarded");
        }
    });
    // many state variables in one file (65-200 over two or three contracts), some assigned in constructors
    let n_mv = ctx.tier.pick(10u64, 300u64);
    run_workload(ctx, &mut acc, "many-variables", n_mv, |k, rng, acc| {
        let mut t = String::from("pragma solidity 0.8.17;\n");
        let ncontracts = rng.range(2, 3);
        let mut counter = 0usize;
        for c in 0..ncontracts {
            let nv = if c == 0 { rng.range(60, 140) } else { rng.range(3, 40) };
            t.push_str(&format!("contract Many{}_{} {{\n", k, c));
            let mut mine = vec![];
            for _ in 0..nv {
                // names sort in an order unrelated to declaration order
                let name = format!("{}{}", ["zz", "aa", "mm", "Qq", "_p"][counter % 5], counter);
                counter += 1;
                let ty = rng.ps(&["uint256", "address", "uint8", "bytes32", "bool", "uint128"]);
                t.push_str(&format!("    {} {};\n", ty, name));
                mine.push((name, ty));
            }
            if rng.chance(3, 4) {
                t.push_str("    constructor() {\n");
                for (name, ty) in mine.iter().filter(|_| rng.chance(1, 4)) {
                    let v = match *ty {
                        "address" => "msg.sender",
                        "bool" => "true",
                        "bytes32" => "bytes32(0)",
                        _ => "7",
                    };
                    t.push_str(&format!("        {} = {};\n", name, v));
                }
                t.push_str("    }\n");
            }
            if let Some((name, _)) = mine.iter().find(|(_, ty)| *ty == "uint256") {
                t.push_str(&format!("    function bump{}() external {{\n        {} += 1;\n    }}\n", c, name));
            }
            t.push_str("}\n");
        }
        if check_file(&format!("many-variables#{}", k), &t, acc) {
            acc.cov("programs:many-variables");
        }
    });
    let n = ctx.tier.pick(400u64, 100000u64);
    run_workload(ctx, &mut acc, "generated", n, |k, rng, acc| {
        let mut cfg = Cfg::normal();
        cfg.max_items = 6;
        cfg.max_parts = 6;
        cfg.pragma = Some(rng.ps(&["0.8.17", "0.7.6", "0.8.3", "0.8.4"]).to_string());
        let mut b = Builder::new(rng, cfg);
        let f = b.file();
        drop(b);
        let r = crate::gast::render(&f);
        let lay = *rng.pick(&[Layout::Pretty, Layout::Pretty, Layout::Random, Layout::NoFinalNewline, Layout::Crlf]);
        let (laid, _) = layout::lay(&r.toks, lay, rng);
        if !dets::parses(&laid.text) {
            acc.discards += 1;
            return;
        }
        if check_file(&format!("gen#{}", k), &laid.text, acc) {
            acc.cov("programs:generated");
            if k < 40 && acc.samples.len() < 2 {
                acc.sample(json!({"program": format!("gen#{}", k), "text": trunc(&laid.text, 1500)}));
            }
        }
    });
    if ctx.replay.is_none() {
        if acc.cov_get("comparisons-with-findings") < 500 {
            acc.inconclusive(format!("coverage floor: only {} comparisons had findings", acc.cov_get("comparisons-with-findings")));
        }
        if acc.cov_get("programs:namesakes") < total_ns * 9 / 10 {
            acc.inconclusive(format!("coverage floor: only {} of {} namesake combinations were checked", acc.cov_get("programs:namesakes"), total_ns));
        }
        for key in ["adjacent:library>contract", "adjacent:contract>contract", "adjacent:free-function>contract", "adjacent:interface>contract"] {
            if acc.cov_get(key) < 5 {
                acc.inconclusive(format!("coverage floor: shape {} observed {} times", key, acc.cov_get(key)));
            }
        }
    }
    meta.assumptions = vec![
        "item extents: start of item k to start of item k+1 per the parser's locations; every blanked variant is re-parsed and must contain exactly the pragmas and item k at its original offset".into(),
        "files whose items mention each other's state-variable names are skipped (precondition of the property); the count is reported".into(),
    ];
    finish(ctx, acc, meta)
}
