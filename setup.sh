#!/bin/bash
# Offline build of the monitoring harness and of the solstat binary from /repo's working tree.
set -eu
cd "$(dirname "$0")"
export CARGO_NET_OFFLINE=true
export RUSTFLAGS="--cfg solstat_verif"
mkdir -p target evidence replays
cargo build --release --offline --manifest-path harness/Cargo.toml --target-dir target
cargo build --profile chk --offline --manifest-path harness/Cargo.toml --target-dir target
cargo build --release --offline --manifest-path /repo/Cargo.toml --target-dir target --bin solstat
cargo build --offline --manifest-path /repo/Cargo.toml --target-dir target --bin solstat   # unoptimised build, used by ./check C04
# ThreadSanitizer build of the C15 sanitizer workload (nightly, build-std); used by ./check C15 in both tiers
( cd harness-nightly && RUSTFLAGS="-Zsanitizer=thread" cargo +nightly build -Zbuild-std --target x86_64-unknown-linux-gnu --release --offline --target-dir ../target/tsan ) || echo "warning: ThreadSanitizer build failed; ./check C15 will report INCONCLUSIVE"
echo setup ok
