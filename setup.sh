#!/bin/bash
# Offline build of the monitoring harness and of the solstat binary from /repo's working tree.
set -eu
cd "$(dirname "$0")"
export CARGO_NET_OFFLINE=true
export RUSTFLAGS="--cfg solstat_verif"
mkdir -p target evidence replays
cargo build --release --offline --manifest-path harness/Cargo.toml --target-dir target
cargo build --profile chk --offline --manifest-path harness/Cargo.toml --target-dir target
cargo build --release --offline --manifest-path /repo/Cargo.toml --target-dir target --bin solstat
echo setup ok
