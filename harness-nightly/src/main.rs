//! C15 sanitizer workload: several threads call the per-file entry points concurrently on a small
//! shared set of files; every result must equal the result of a sequential call made before the
//! threads start.  Under Miri this explores seeded schedules and reports data races / UB; built with
//! -Zsanitizer=thread it is the full-speed race detector run.
use solstat::analyzer::optimizations::{analyze_for_optimization, Optimization};
use solstat::analyzer::qa::{analyze_for_qa, QualityAssurance};
use solstat::analyzer::vulnerabilities::{analyze_for_vulnerability, Vulnerability};
use std::collections::BTreeSet;
use std::sync::{Arc, Barrier};

const A: &str = "pragma solidity ^0.8.4;\ncontract A {\n  uint256 public total;\n  address owner;\n  function f(uint256 a, uint256[] memory xs) public returns (uint256) {\n    require(a > 0 && a < 10, \"a string that is quite a bit longer than thirty-two bytes\");\n    for (uint256 i = 0; i < xs.length; i++) { total = total + xs[i] * 2; }\n    if (owner == address(0)) { selfdestruct(payable(msg.sender)); }\n    return a / 4 * 3;\n  }\n}\n";
const B: &str = "pragma solidity 0.7.6;\nlibrary SafeMath { function add(uint a, uint b) internal pure returns (uint) { return a + b; } }\ncontract B {\n  using SafeMath for uint;\n  uint x;\n  function g(uint y) external { x = x.add(y); token.transfer(msg.sender, y); }\n  constructor() { x = 1; }\n}\n";

#[derive(Clone, Copy)]
enum Call {
    O(Optimization),
    V(Vulnerability),
    Q(QualityAssurance),
}

fn run(c: Call, text: &str, n: usize) -> BTreeSet<i32> {
    match c {
        Call::O(o) => analyze_for_optimization(text, n, o),
        Call::V(v) => analyze_for_vulnerability(text, n, v),
        Call::Q(q) => analyze_for_qa(text, n, q),
    }
}

fn main() {
    let stress = std::env::args().nth(1).as_deref() == Some("stress");
    let calls: Vec<Call> = if stress {
        vec![
            Call::O(Optimization::SolidityMath), Call::O(Optimization::ShiftMath), Call::O(Optimization::StringErrors), Call::O(Optimization::SafeMathPre080),
            Call::O(Optimization::CacheArrayLength), Call::O(Optimization::Sstore), Call::O(Optimization::ConstantVariables), Call::O(Optimization::ImmutableVarialbes),
            Call::O(Optimization::IncrementDecrement), Call::O(Optimization::AddressZero), Call::V(Vulnerability::UnprotectedSelfdestruct), Call::V(Vulnerability::DivideBeforeMultiply),
            Call::V(Vulnerability::UnsafeERC20Operation), Call::V(Vulnerability::FloatingPragma), Call::Q(QualityAssurance::ConstructorOrder), Call::Q(QualityAssurance::PrivateVarsLeadingUnderscore),
        ]
    } else {
        vec![Call::O(Optimization::SolidityMath), Call::O(Optimization::StringErrors), Call::V(Vulnerability::DivideBeforeMultiply), Call::Q(QualityAssurance::ConstructorOrder)]
    };
    let files = [A, B];
    // sequential baseline
    let mut base: Vec<Vec<BTreeSet<i32>>> = vec![];
    for f in files.iter() {
        base.push(calls.iter().map(|c| run(*c, f, 0)).collect());
    }
    let base = Arc::new(base);
    let threads = if stress { 16 } else { 3 };
    let rounds = if stress { 200 } else { 1 };
    let barrier = Arc::new(Barrier::new(threads));
    let mut hs = vec![];
    for t in 0..threads {
        let base = base.clone();
        let barrier = barrier.clone();
        let calls = calls.clone();
        hs.push(std::thread::spawn(move || {
            barrier.wait();
            let mut bad = 0usize;
            for r in 0..rounds {
                for (ci, c) in calls.iter().enumerate() {
                    let fi = (t + r + ci) % 2;
                    // adversarial file numbers: the same number for different contents
                    let got = run(*c, files[fi], (t + ci) % 2);
                    if got != base[fi][ci] {
                        bad += 1;
                    }
                }
            }
            bad
        }));
    }
    let bad: usize = hs.into_iter().map(|h| h.join().unwrap()).sum();
    println!("vmon-nightly threads={} calls_per_thread={} mismatches={}", threads, rounds * calls.len(), bad);
    if bad > 0 {
        std::process::exit(1);
    }
}
